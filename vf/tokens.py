"""Token-aware stand-ins for astropy's string parsers (Angle / Quantity) in reader namespaces:
a string whose numeric part is a decimal token written by a symbolic __format__ denotes the
symbolic value recorded for that token; anything else goes to the real astropy constructor."""
import re

import astropy.units as u
from astropy.coordinates import Angle as _Angle

from . import symx

_TOK = re.compile(r'^\s*([+-]?)(7\d{6}(?:\.\d+)?)\s*([a-zA-Z"\']*)\s*$')
_UNITS = {'deg': u.deg, 'rad': u.rad, 'arcmin': u.arcmin, 'arcsec': u.arcsec, '"': u.arcsec, "'": u.arcmin, 'pix': u.dimensionless_unscaled,
          '': None, 'd': u.deg, 'r': u.rad}


def _tok(s):
    if not isinstance(s, str) or symx.CTX is None:
        return None
    m = _TOK.match(s)
    if not m or m.group(2) not in symx.CTX.tokens:
        return None
    v = symx.CTX.tokens[m.group(2)]
    if m.group(1) == '-':
        v = -v
    return v, m.group(3)


class AngleFacade:
    """callable like astropy.coordinates.Angle; isinstance checks keep working through __instancecheck__"""

    def __call__(self, value, unit=None, **kw):
        t = _tok(value)
        if t is None:
            return _Angle(value, unit, **kw)
        v, suffix = t
        un = _UNITS.get(suffix)
        if un is None:
            un = u.Unit(unit) if unit is not None else u.deg
        return _Angle(u.Quantity(v, un, dtype=object))

    def __instancecheck__(self, inst):
        return isinstance(inst, _Angle)


class _AngleMeta(type):
    def __instancecheck__(cls, inst):
        return isinstance(inst, _Angle)

    def __call__(cls, value, unit=None, **kw):
        return AngleFacade()(value, unit, **kw)


class Angle(metaclass=_AngleMeta):
    pass


def quantity(value, unit=None, **kw):
    t = _tok(value)
    if t is None:
        return u.Quantity(value, unit, **kw)
    v, suffix = t
    un = _UNITS.get(suffix)
    if un is None:
        un = u.Unit(unit) if unit is not None else u.dimensionless_unscaled
    return u.Quantity(v, un, dtype=object)


class _QMeta(type):
    def __instancecheck__(cls, inst):
        return isinstance(inst, u.Quantity)

    def __call__(cls, value, unit=None, **kw):
        return quantity(value, unit, **kw)


class Quantity(metaclass=_QMeta):
    pass


class UnitsFacade:
    """`u` replacement: astropy.units with a token-aware Quantity"""
    Quantity = Quantity

    def __getattr__(self, name):
        return getattr(u, name)
