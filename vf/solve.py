"""Solver layer: validity queries with slicing, statistics, cvc5 cross-check."""
import os
import time

import z3

MARGIN = z3.Real('MARGIN')


class Stats:
    def __init__(self):
        self.n = {'unsat': 0, 'sat': 0, 'unknown': 0}
        self.time = 0.0
        self.trivial = 0
        self.exported = []

    def merge(self, other):
        for k in self.n:
            self.n[k] += other.n[k]
        self.time += other.time
        self.trivial += other.trivial

    def as_dict(self):
        return {'unsat': self.n['unsat'], 'sat': self.n['sat'], 'unknown': self.n['unknown'],
                'trivial_closed_by_simplifier': self.trivial, 'solver_time_s': round(self.time, 3)}


STATS = Stats()


def free_vars(t, acc=None, seen=None):
    acc = {} if acc is None else acc
    seen = set() if seen is None else seen
    stack = [t]
    while stack:
        x = stack.pop()
        i = x.get_id()
        if i in seen:
            continue
        seen.add(i)
        if z3.is_const(x) and x.decl().kind() == z3.Z3_OP_UNINTERPRETED:
            acc[i] = x
        else:
            stack.extend(x.children())
    return acc


def cone(goal_terms, formulas):
    """Formulas connected (transitively, via shared symbols) to the goal terms."""
    vs = set()
    for g in goal_terms:
        vs |= set(free_vars(g))
    fv = [(f, set(free_vars(f))) for f in formulas]
    keep = [False] * len(fv)
    changed = True
    while changed:
        changed = False
        for i, (f, s) in enumerate(fv):
            if not keep[i] and (not s or s & vs):
                keep[i] = True
                if s - vs:
                    vs |= s
                    changed = True
    return [f for (f, _), k in zip(fv, keep) if k]


def check_sat(formulas, timeout_ms=30000, tactic=None, seed=0):
    """('sat', model) | ('unsat', None) | ('unknown', reason)"""
    t0 = time.time()
    s = z3.Solver() if tactic is None else z3.Tactic(tactic).solver()
    s.set('timeout', int(timeout_ms))
    if seed:
        s.set('random_seed', seed)
    s.add(*formulas)
    r = s.check()
    dt = time.time() - t0
    STATS.time += dt
    STATS.n[str(r)] += 1
    if r == z3.sat:
        return 'sat', s.model()
    if r == z3.unsat:
        return 'unsat', None
    return 'unknown', s.reason_unknown()


def prove(hyps, goal, timeout_ms=30000, slice_=True, extra_goal_terms=()):
    """Is (∧hyps) ⇒ goal valid?  Returns ('valid', None) | ('cex', model) | ('unknown', why).

    Slicing drops hypotheses that share no symbol (transitively) with the goal; a
    counter-model under the sliced set is re-established under the full set before it
    is returned."""
    g = z3.simplify(goal)
    if z3.is_true(g):
        STATS.trivial += 1
        return 'valid', None
    neg = z3.Not(goal)
    hs = list(hyps)
    if slice_:
        sl = cone([goal, *extra_goal_terms], hs)
    else:
        sl = hs
    r, m = check_sat(sl + [neg], timeout_ms)
    if r == 'unsat':
        return 'valid', None
    if r == 'sat':
        if len(sl) != len(hs):
            r2, m2 = check_sat(hs + [neg], timeout_ms)
            if r2 == 'unsat':
                return 'valid', None
            if r2 == 'sat':
                return 'cex', m2
            return 'unknown', f'sliced sat, full {m2}'
        return 'cex', m
    # unknown: one retry with nlsat-oriented tactic
    r, m = check_sat(sl + [neg], timeout_ms, tactic='qfnra-nlsat')
    if r == 'unsat':
        return 'valid', None
    if r == 'sat':
        r2, m2 = check_sat(hs + [neg], timeout_ms)
        if r2 == 'sat':
            return 'cex', m2
        if r2 == 'unsat':
            return 'valid', None
    return 'unknown', str(m)


def to_smt2(formulas):
    s = z3.Solver()
    s.add(*formulas)
    return s.to_smt2()


def cvc5_check(smt2, timeout_ms=20000):
    """Re-decide an SMT-LIB2 benchmark with the cvc5 Python wheel. Returns 'sat'/'unsat'/'unknown'."""
    import cvc5
    tm = cvc5.TermManager() if hasattr(cvc5, 'TermManager') else None
    slv = cvc5.Solver(tm) if tm is not None else cvc5.Solver()
    slv.setOption('tlimit-per', str(int(timeout_ms)))
    slv.setOption('nl-cov', 'true')
    parser = cvc5.InputParser(slv)
    parser.setStringInput(cvc5.InputLanguage.SMT_LIB_2_6, smt2, 'q')
    sm = parser.getSymbolManager()
    res = 'unknown'
    while True:
        cmd = parser.nextCommand()
        if cmd.isNull():
            break
        out = cmd.invoke(slv, sm)
        o = str(out).strip()
        if o in ('sat', 'unsat', 'unknown'):
            res = o
        if '(error' in o:
            return 'error'
    return res


def model_value(m, t):
    """python float / int of a term under a model (algebraic numbers approximated)."""
    v = m.eval(t, model_completion=True)
    if z3.is_rational_value(v):
        n, d = v.numerator_as_long(), v.denominator_as_long()
        return n if d == 1 else n / d
    if z3.is_algebraic_value(v):
        a = v.approx(30)
        return a.numerator_as_long() / a.denominator_as_long()
    if z3.is_true(v):
        return True
    if z3.is_false(v):
        return False
    raise ValueError(f'cannot read model value {v}')
