"""Solver layer: validity queries with slicing, statistics, cvc5 cross-check."""
import os
import time

import z3

MARGIN = z3.Real('MARGIN')


class Stats:
    def __init__(self):
        self.n = {'unsat': 0, 'sat': 0, 'unknown': 0}
        self.time = 0.0
        self.trivial = 0
        self.exported = []
        self.cross = {'agree': 0, 'unknown': 0, 'disagree': 0, 'error': 0}

    def merge(self, other):
        for k in self.n:
            self.n[k] += other.n[k]
        self.time += other.time
        self.trivial += other.trivial

    def as_dict(self):
        return {'unsat': self.n['unsat'], 'sat': self.n['sat'], 'unknown': self.n['unknown'],
                'trivial_closed_by_simplifier': self.trivial, 'solver_time_s': round(self.time, 3),
                'cross': dict(self.cross)}


STATS = Stats()


def free_vars(t, acc=None, seen=None):
    acc = {} if acc is None else acc
    seen = set() if seen is None else seen
    stack = [t]
    while stack:
        x = stack.pop()
        i = x.get_id()
        if i in seen:
            continue
        seen.add(i)
        if z3.is_const(x) and x.decl().kind() == z3.Z3_OP_UNINTERPRETED:
            acc[i] = x
        else:
            stack.extend(x.children())
    return acc


import re as _re
_DEFSYM = _re.compile(r'^(k?sqrt!|SQRT\d|unwound!|quot!|kasin!|ksin!)')


def needed_defs(defs, seeds):
    """Definitional constraints (conservative extensions: sqrt / algebraic-constant symbols)
    are only needed when their defined symbol occurs in the seed formulas, transitively."""
    need = set()
    for f in seeds:
        need |= {str(v) for v in free_vars(f).values()}
    info = []
    for d in defs:
        vs = {str(v) for v in free_vars(d).values()}
        info.append((d, vs, {v for v in vs if _DEFSYM.match(v)}))
    keep = [False] * len(info)
    changed = True
    while changed:
        changed = False
        for i, (d, vs, dsyms) in enumerate(info):
            if not keep[i] and (not dsyms or dsyms & need):
                keep[i] = True
                if vs - need:
                    need |= vs
                changed = True
    return [d for (d, _, _), k in zip(info, keep) if k]


def cone(goal_terms, formulas):
    """Formulas connected (transitively, via shared symbols) to the goal terms."""
    vs = set()
    for g in goal_terms:
        vs |= set(free_vars(g))
    fv = [(f, set(free_vars(f))) for f in formulas]
    keep = [False] * len(fv)
    changed = True
    while changed:
        changed = False
        for i, (f, s) in enumerate(fv):
            if not keep[i] and (not s or s & vs):
                keep[i] = True
                if s - vs:
                    vs |= s
                    changed = True
    return [f for (f, _), k in zip(fv, keep) if k]


def _run(s, formulas, timeout_ms, seed):
    s.set('timeout', int(timeout_ms))
    if seed:
        try:
            s.set('random_seed', seed)
        except z3.Z3Exception:
            pass
    s.add(*formulas)
    r = s.check()
    if r == z3.sat:
        return 'sat', s.model()
    if r == z3.unsat:
        return 'unsat', None
    return 'unknown', s.reason_unknown()


PORTFOLIO = True
_PREF = ['A', 'B']


def check_sat(formulas, timeout_ms=30000, tactic=None, seed=0):
    """('sat', model) | ('unsat', None) | ('unknown', reason).

    Portfolio: (1) equation solving + the CDCL(T) core (`smt`), which is very fast on the
    mostly-linear obligations with a few products, under a short budget; (2) z3's default
    strategy (nlsat first for QF_NRA) under the full budget."""
    t0 = time.time()
    try:
        if tactic is not None:
            r, m = _run(z3.Tactic(tactic).solver(), formulas, timeout_ms, seed)
        else:
            r, m = 'unknown', 'not run'
            if PORTFOLIO:
                a, b = _PREF
                plan = [(a, 1500), (b, 3000), (a, 8000), (b, timeout_ms)]
            else:
                plan = [('B', timeout_ms)]
            spent = 0
            for kind, budget in plan:
                budget = min(budget, max(timeout_ms - spent, 500))
                t1 = time.time()
                if kind == 'A':
                    sv = z3.Then('simplify', 'solve-eqs', 'elim-term-ite', 'solve-eqs', 'smt').solver()
                else:
                    sv = z3.Solver()
                r, m = _run(sv, formulas, budget, seed)
                spent += int((time.time() - t1) * 1000)
                if r != 'unknown':
                    if PORTFOLIO and kind != _PREF[0]:
                        _PREF.reverse()      # adaptive: the strategy that just won goes first
                    break
                if spent >= timeout_ms:
                    break
    finally:
        STATS.time += time.time() - t0
    STATS.n[r] += 1
    return r, m


_CACHE = {}
ABSTRACT = True


def tight(goal_terms, formulas, link=()):
    """Hypotheses all of whose symbols lie in the goal's symbol set, closed under the
    `link` formulas (definitions: a definition whose defined symbol is reached pulls in its
    other symbols)."""
    vs = set()
    for g in goal_terms:
        vs |= set(free_vars(g))
    lk = [(f, set(free_vars(f))) for f in link]
    changed = True
    while changed:
        changed = False
        for f, sset in lk:
            if sset & vs and not sset <= vs:
                vs |= sset
                changed = True
    return [f for f in formulas if set(free_vars(f)) <= vs]


def prove(hyps, goal, timeout_ms=30000, slice_=True, extra_goal_terms=(), link=()):
    """Is (∧hyps) ⇒ goal valid?  Returns ('valid', None) | ('cex', model) | ('unknown', why).

    Hypotheses are tried in growing subsets (dropping hypotheses is sound for validity):
    (1) those over the goal's own symbols (closed under the definitional `link` formulas),
    (2) the cone of influence, (3) all.  A counter-model is only returned from the full set."""
    g = z3.simplify(goal)
    if z3.is_true(g):
        STATS.trivial += 1
        return 'valid', None
    neg = z3.Not(goal)
    hs = list(hyps)
    stages = []
    if slice_:
        t1 = tight([goal, *extra_goal_terms], hs, link)
        stages.append(t1)
        c1 = cone([goal, *extra_goal_terms], hs)
        if len(c1) != len(t1):
            stages.append(c1)
    if not stages or len(stages[-1]) != len(hs):
        stages.append(hs)
    last = None
    if ABSTRACT and stages:
        # stage 0: factor abstraction of the tightest hypothesis set (unsat transfers)
        try:
            fs, nvars = abstract_factors(stages[0] + [neg])
        except Exception:  # noqa
            fs, nvars = None, 0
        if nvars:
            r, m = check_sat(fs, min(timeout_ms, 10000))
            if r == 'unsat':
                STATS.abstracted = getattr(STATS, 'abstracted', 0) + 1
                return 'valid', None
    for k, st in enumerate(stages):
        full = len(st) == len(hs)
        key = (tuple(sorted(f.get_id() for f in st)), neg.get_id())
        if key in _CACHE:
            r, m = _CACHE[key][:2]
            STATS.cached = getattr(STATS, 'cached', 0) + 1
        else:
            r, m = check_sat(st + [neg], timeout_ms)
            if r == 'unknown':
                r2, m2 = check_sat(st + [neg], timeout_ms, tactic='qfnra-nlsat')
                if r2 != 'unknown':
                    r, m = r2, m2
            _CACHE[key] = (r, m, st, neg)   # pin the terms: AST ids must not be reused
        if r == 'unsat':
            if _cross_budget():
                c = _cross_check(st + [neg])
                if c == 'disagree':
                    return 'unknown', 'solver disagreement: z3 unsat, cvc5 sat'
            return 'valid', None
        if r == 'sat' and full:
            return 'cex', m
        last = (r, m)
    return 'unknown', str(last[1]) if last else 'no stage'


_CROSS_USED = [0]


def _cross_budget():
    """cross-solver sampling: VERIF_CROSS = number of z3 `unsat` verdicts per case that are re-decided by cvc5"""
    import os
    try:
        n = int(os.environ.get('VERIF_CROSS', '0') or 0)
    except ValueError:
        n = 0
    return _CROSS_USED[0] < n


def _cross_check(formulas, timeout_ms=4000):
    """cvc5 runs in a forked child that is killed after the budget: its own time limit is not honoured on every NRA query"""
    import os
    import select
    import signal
    _CROSS_USED[0] += 1
    text = to_smt2(formulas)
    rfd, wfd = os.pipe()
    pid = os.fork()
    if pid == 0:
        os.close(rfd)
        try:
            out = cvc5_check(text, timeout_ms)
        except BaseException:  # noqa
            out = 'error'
        try:
            os.write(wfd, str(out).encode())
        finally:
            os._exit(0)
    os.close(wfd)
    r = 'unknown'
    ready, _, _ = select.select([rfd], [], [], timeout_ms / 1000.0 + 3.0)
    if ready:
        try:
            r = os.read(rfd, 64).decode() or 'error'
        except OSError:
            r = 'error'
    else:
        try:
            os.kill(pid, signal.SIGKILL)
        except OSError:
            pass
    os.close(rfd)
    try:
        os.waitpid(pid, 0)
    except OSError:
        pass

    k = {'unsat': 'agree', 'sat': 'disagree', 'unknown': 'unknown'}.get(r, 'error')
    STATS.cross[k] += 1
    return k


def to_smt2(formulas):
    s = z3.Solver()
    s.add(*formulas)
    return s.to_smt2()


def cvc5_check(smt2, timeout_ms=20000):
    """Re-decide an SMT-LIB2 benchmark with the cvc5 Python wheel. Returns 'sat'/'unsat'/'unknown'."""
    import cvc5
    tm = cvc5.TermManager() if hasattr(cvc5, 'TermManager') else None
    slv = cvc5.Solver(tm) if tm is not None else cvc5.Solver()
    slv.setOption('tlimit-per', str(int(timeout_ms)))
    slv.setOption('nl-cov', 'true')
    if '(set-logic' not in smt2:
        smt2 = '(set-logic ALL)\n' + smt2
    parser = cvc5.InputParser(slv)
    parser.setStringInput(cvc5.InputLanguage.SMT_LIB_2_6, smt2, 'q')
    sm = parser.getSymbolManager()
    res = 'unknown'
    while True:
        cmd = parser.nextCommand()
        if cmd.isNull():
            break
        out = cmd.invoke(slv, sm)
        o = str(out).strip()
        if o in ('sat', 'unsat', 'unknown'):
            res = o
        if '(error' in o:
            return 'error'
    return res


def model_value(m, t):
    """python float / int of a term under a model (algebraic numbers approximated)."""
    v = m.eval(t, model_completion=True)
    if z3.is_int_value(v):
        return v.as_long()
    if z3.is_rational_value(v):
        n, d = v.numerator_as_long(), v.denominator_as_long()
        return n if d == 1 else n / d
    if z3.is_algebraic_value(v):
        a = v.approx(30)
        return a.numerator_as_long() / a.denominator_as_long()
    if z3.is_true(v):
        return True
    if z3.is_false(v):
        return False
    raise ValueError(f'cannot read model value {v}')


# --------------------------------------------------------------------------
# factor abstraction: replace every sum that occurs as a factor of a product / quotient by
# coef * fresh-variable (one variable per sum up to a scalar multiple).  The abstracted
# problem has more models than the original, so `unsat` transfers; `sat` does not.
# --------------------------------------------------------------------------
def _split_coef(t):
    """(Fraction coef, [non-numeric factors]) of a monomial term"""
    from fractions import Fraction
    if z3.is_rational_value(t):
        return Fraction(t.numerator_as_long(), t.denominator_as_long()), []
    if z3.is_app(t) and t.decl().kind() == z3.Z3_OP_MUL:
        c = Fraction(1)
        rest = []
        for ch in t.children():
            cc, rr = _split_coef(ch)
            c *= cc
            rest += rr
        return c, rest
    if z3.is_app(t) and t.decl().kind() == z3.Z3_OP_UMINUS:
        c, r = _split_coef(t.arg(0))
        return -c, r
    return Fraction(1), [t]


def abstract_factors(formulas):
    from fractions import Fraction
    table = {}     # key -> fresh var
    memo = {}
    counter = [0]

    def fresh_for(key):
        if key not in table:
            counter[0] += 1
            table[key] = z3.Real(f'fac!{counter[0]}')
        return table[key]

    def abstract_sum(t):
        """t is an ADD node: return coef * var(primitive(t))"""
        monos = []
        for ch in t.children():
            c, rest = _split_coef(ch)
            rest = sorted(rest, key=lambda x: x.sexpr())
            monos.append((tuple(r.sexpr() for r in rest), c))
        # merge equal monomials
        acc = {}
        for k, c in monos:
            acc[k] = acc.get(k, Fraction(0)) + c
        items = sorted((k, c) for k, c in acc.items() if c != 0)
        if not items:
            return z3.RealVal(0)
        lead = items[0][1]
        key = tuple((k, c / lead) for k, c in items)
        v = fresh_for(key)
        return z3.RealVal(f'{lead.numerator}/{lead.denominator}') * v

    def walk(t, under_product):
        k = (t.get_id(), under_product)
        if k in memo:
            return memo[k][0]
        if not z3.is_app(t) or t.num_args() == 0:
            r = t
        else:
            kind = t.decl().kind()
            if under_product and kind == z3.Z3_OP_ADD and z3.is_arith(t):
                ts = z3.simplify(t, som=True)
                if z3.is_app(ts) and ts.decl().kind() == z3.Z3_OP_ADD:
                    r = abstract_sum(ts)
                else:
                    r = ts
            else:
                up = kind in (z3.Z3_OP_MUL, z3.Z3_OP_DIV, z3.Z3_OP_POWER)
                ch = [walk(c, up) for c in t.children()]
                r = t.decl()(*ch) if any(not a.eq(b) for a, b in zip(ch, t.children())) else t
        memo[k] = (r, t)
        return r

    out = [walk(z3.simplify(f), False) for f in formulas]
    return out, len(table)


def abstract_nonlinear(formulas):
    """Replace every non-linear arithmetic subterm (product of two non-numerals, division by a
    non-numeral, power) by a fresh real (same term, same variable).  The result is linear;
    it has more models than the original, so `unsat` transfers.  Returns (formulas, count)."""
    table = {}
    memo = {}

    def is_num(t):
        return z3.is_rational_value(t) or z3.is_int_value(t)

    def walk(t):
        k = t.get_id()
        if k in memo:
            return memo[k][0]
        r = t
        if z3.is_app(t) and t.num_args() > 0:
            kind = t.decl().kind()
            nonlin = False
            if kind == z3.Z3_OP_MUL:
                nonlin = sum(1 for c in t.children() if not is_num(c)) >= 2
            elif kind == z3.Z3_OP_DIV:
                nonlin = not is_num(t.arg(1))
            elif kind == z3.Z3_OP_POWER:
                nonlin = True
            if nonlin:
                key = t.sexpr()
                if key not in table:
                    table[key] = z3.Real(f'nl!{len(table)}')
                r = table[key]
            else:
                ch = [walk(c) for c in t.children()]
                if any(not a.eq(b) for a, b in zip(ch, t.children())):
                    r = t.decl()(*ch)
        memo[k] = (r, t)
        return r

    out = [walk(z3.simplify(f)) for f in formulas]
    return out, len(table)
