"""Splice E2 (the .pyx kernels interpreted from source) into E1 runs: replacements for the
compiled kernel functions that accept SymReal arguments and return SymArrays."""
import numpy as np
import z3

from . import symx
from .symx import SymReal, SymBool
from .pyxsym import Interp, ISum, Ite, Rnum, R, is_z3


def _g(v):
    if isinstance(v, SymReal):
        return z3.simplify(v.t) if False else v.t
    if isinstance(v, (np.floating, np.integer)):
        return v.item()
    if isinstance(v, np.ndarray) and v.shape == ():
        return _g(v[()])
    return v


def _int(v):
    if isinstance(v, SymReal):
        return v.__index__()
    return int(v)


def _trig_hooks():
    def hcos(I, args, guard):
        a = args[0]
        if not is_z3(a):
            import math
            return math.cos(a)
        return symx.cs_of(a)[0]

    def hsin(I, args, guard):
        a = args[0]
        if not is_z3(a):
            import math
            return math.sin(a)
        return symx.cs_of(a)[1]
    return {'cos': hcos, 'sin': hsin}


def _finish(I, frac, ny, nx):
    c = symx.ctx()
    c.defs.extend(I.side)
    for (g, f, what) in I.safety:
        c.safety.append((len(c.pc), z3.Implies(g, f), 'kernel: ' + what))
    for (g, what) in I.raises:
        c.safety.append((len(c.pc), z3.Not(g), 'kernel raise unreachable: ' + what[:60]))
    for (g, name) in I.unwound:
        c.safety.append((len(c.pc), z3.Not(g), f'unwinding assertion: recursion bound of {name}'))
    arr = np.empty((ny, nx), dtype=object)
    cells = [[None] * nx for _ in range(ny)]
    for j in range(ny):
        for i in range(nx):
            v = frac[j][i]
            cells[j][i] = v
            arr[j, i] = SymReal(Rnum(v)) if (is_z3(v) or isinstance(v, (ISum, Ite))) else v
    out = arr.view(symx.SymArray)
    out.cells = cells
    return out


def circular_overlap_grid(xmin, xmax, ymin, ymax, nx, ny, r, use_exact, subpixels, hooks=None):
    nx, ny = _int(nx), _int(ny)
    I = Interp('circular_overlap', hooks=hooks or {})
    frac = I.call('circular_overlap_grid', [_g(xmin), _g(xmax), _g(ymin), _g(ymax), nx, ny, _g(r),
                                            int(use_exact), int(subpixels)])
    return _finish(I, frac, ny, nx)


def elliptical_overlap_grid(xmin, xmax, ymin, ymax, nx, ny, rx, ry, theta, use_exact, subpixels, hooks=None):
    nx, ny = _int(nx), _int(ny)
    hk = _trig_hooks()
    hk.update(hooks or {})
    I = Interp('elliptical_overlap', hooks=hk)
    frac = I.call('elliptical_overlap_grid', [_g(xmin), _g(xmax), _g(ymin), _g(ymax), nx, ny, _g(rx), _g(ry),
                                              _g(theta), int(use_exact), int(subpixels)])
    return _finish(I, frac, ny, nx)


def rectangular_overlap_grid(xmin, xmax, ymin, ymax, nx, ny, width, height, theta, use_exact, subpixels):
    nx, ny = _int(nx), _int(ny)
    I = Interp('rectangular_overlap', hooks=_trig_hooks())
    from .pyxsym import KernelRaise
    try:
        frac = I.call('rectangular_overlap_grid', [_g(xmin), _g(xmax), _g(ymin), _g(ymax), nx, ny, _g(width),
                                                   _g(height), _g(theta), int(use_exact), int(subpixels)])
    except KernelRaise as e:
        raise NotImplementedError(str(e))
    return _finish(I, frac, ny, nx)


def _vec(a):
    a = np.asarray(a, dtype=object).view(np.ndarray)
    return [_g(x) for x in a.reshape(-1)]


def polygonal_overlap_grid(xmin, xmax, ymin, ymax, nx, ny, vx, vy, use_exact, subpixels):
    nx, ny = _int(nx), _int(ny)
    I = Interp('polygonal_overlap')
    from .pyxsym import KernelRaise
    try:
        frac = I.call('polygonal_overlap_grid', [_g(xmin), _g(xmax), _g(ymin), _g(ymax), nx, ny, _vec(vx), _vec(vy),
                                                 int(use_exact), int(subpixels)])
    except KernelRaise as e:
        raise NotImplementedError(str(e))
    return _finish(I, frac, ny, nx)


def points_in_polygon(x, y, vx, vy):
    I = Interp('pnpoly')
    xs, ys = _vec(x), _vec(y)
    res = I.call('points_in_polygon', [xs, ys, _vec(vx), _vec(vy)])
    c = symx.ctx()
    c.defs.extend(I.side)
    for (g, f, what) in I.safety:
        c.safety.append((len(c.pc), z3.Implies(g, f), 'kernel: ' + what))
    out = np.empty(len(xs), dtype=object)
    for k, v in enumerate(res):
        if is_z3(v) or isinstance(v, (ISum, Ite)):
            t = Rnum(v)
            out[k] = SymBool(z3.simplify(t != 0))
        else:
            out[k] = bool(v)
    return out.view(symx.SymArray)


class NPFacade:
    """`np` replacement for repo module namespaces: identical to numpy except that
    dtype=float/int conversions keep object dtype when an element is symbolic."""

    def __init__(self):
        self._np = np

    def __getattr__(self, name):
        return getattr(np, name)

    @staticmethod
    def _keep(a, dtype):
        if dtype is symx.sfloat:
            dtype = float
        if dtype is symx.sint:
            dtype = int
        if dtype in (float, int, np.float64, np.int64, 'float', 'int') and symx.has_sym(
                a if isinstance(a, (np.ndarray, list, tuple, SymReal, SymBool)) else []):
            return True
        return False

    def asarray(self, a, dtype=None, **kw):
        if self._keep(a, dtype):
            return np.asarray(a, dtype=object).view(symx.SymArray)
        dtype = float if dtype is symx.sfloat else (int if dtype is symx.sint else dtype)
        return np.asarray(a, dtype=dtype, **kw)

    def array(self, a, dtype=None, **kw):
        if self._keep(a, dtype):
            out = np.array(a, dtype=object)
            if dtype in (int, np.int64, 'int', symx.sint):
                flat = out.reshape(-1)
                for k in range(flat.size):
                    flat[k] = to_bit(flat[k])
            return out.view(symx.SymArray)
        dtype = float if dtype is symx.sfloat else (int if dtype is symx.sint else dtype)
        return np.array(a, dtype=dtype, **kw)

    def atleast_1d(self, a):
        return np.atleast_1d(a)

    def pad(self, array, pad_width, mode='constant', **kw):
        def conc(v):
            if isinstance(v, SymReal):
                return v.__index__()          # solver-enumerated concretisation point
            if isinstance(v, (tuple, list)):
                return tuple(conc(x) for x in v)
            return v
        out = np.pad(np.asarray(array, dtype=object).view(np.ndarray) if symx.has_sym(array) else array,
                     conc(pad_width), mode=mode, **kw)
        return out.view(symx.SymArray) if out.dtype == object else out

    def isfinite(self, a, *args, **kw):
        if isinstance(a, (SymReal, SymBool)):
            return np.True_
        if isinstance(a, np.ndarray) and a.dtype == object:
            flat = np.asarray(a).view(np.ndarray).reshape(-1)
            vals = [True if isinstance(x, (SymReal, SymBool)) else bool(np.isfinite(x)) for x in flat]
            if a.shape == ():
                return np.bool_(vals[0])
            return np.array(vals, dtype=bool).reshape(a.shape)
        return np.isfinite(a, *args, **kw)

    def isclose(self, a, b, rtol=1e-05, atol=1e-08, equal_nan=False):
        if isinstance(a, SymReal) or isinstance(b, SymReal):
            a, b = symx.wrap(a), symx.wrap(b)
            return abs(a - b) <= atol + rtol * abs(b)
        return np.isclose(a, b, rtol=rtol, atol=atol, equal_nan=equal_nan)

    def allclose(self, a, b, rtol=1e-05, atol=1e-08, equal_nan=False):
        if symx.has_sym(a) or symx.has_sym(b) or isinstance(a, SymReal) or isinstance(b, SymReal):
            aa, bb = np.broadcast_arrays(np.asarray(a, dtype=object), np.asarray(b, dtype=object))
            r = True
            for idx in np.ndindex(*aa.shape):
                x, y = symx.wrap(aa[idx]), symx.wrap(bb[idx])
                c_ = abs(x - y) <= atol + rtol * abs(y)
                r = c_ if r is True else (r & c_)
            return r
        return np.allclose(a, b, rtol=rtol, atol=atol, equal_nan=equal_nan)


def to_bit(x):
    """int(x) for a mask value x in [0,1]: 1 iff x >= 1 (truncation), as a 0/1 SymReal"""
    if isinstance(x, SymReal):
        c = symx.ctx()
        c.safety.append((len(c.pc), z3.And(x.t >= 0, x.t <= 1), 'mask value within [0,1] at int conversion'))
        return SymBit(z3.If(x.t >= 1, z3.RealVal(1), z3.RealVal(0)))
    if isinstance(x, SymBool):
        return SymBit(z3.If(x.t, z3.RealVal(1), z3.RealVal(0)))
    return int(x)


class SymBit(SymReal):
    """0/1-valued symbolic integer supporting the bitwise operators used on masks"""

    def __init__(self, t):
        super().__init__(t, integral=True)

    @staticmethod
    def _b(o):
        if isinstance(o, SymReal):
            return o.t == 1
        if isinstance(o, (int, np.integer, bool, np.bool_)) and int(o) in (0, 1):
            return z3.BoolVal(int(o) == 1)
        raise TypeError

    def _op(self, o, f):
        try:
            return SymBit(z3.If(f(self.t == 1, self._b(o)), z3.RealVal(1), z3.RealVal(0)))
        except TypeError:
            return NotImplemented

    def __and__(self, o): return self._op(o, z3.And)
    __rand__ = __and__
    def __or__(self, o): return self._op(o, z3.Or)
    __ror__ = __or__
    def __xor__(self, o): return self._op(o, z3.Xor)
    __rxor__ = __xor__


numbers_registered = True


# --------------------------------------------------------------------------
# concrete source-level kernels (replay): the lowered .pyx executed on floats.  When the
# compiled extension was built from the current .pyx (checked by translation validation)
# this is the same function; when the .pyx has been edited without a rebuild, the source is
# what counts as "the code".
# --------------------------------------------------------------------------
def _f(v):
    return float(v)


def conc_points_in_polygon(x, y, vx, vy):
    I = Interp('pnpoly', symbolic=False)
    res = I.call('points_in_polygon', [[_f(a) for a in x], [_f(a) for a in y], [_f(a) for a in vx], [_f(a) for a in vy]])
    return np.array([int(bool(r)) for r in res], dtype=np.uint8)


def _conc_grid(module, fname, args):
    I = Interp(module, symbolic=False)
    from .pyxsym import KernelRaise
    try:
        frac = I.call(fname, args)
    except KernelRaise as e:
        raise NotImplementedError(str(e))
    return np.array(frac, dtype=float).reshape(int(args[5]), int(args[4]))


def conc_circular_overlap_grid(xmin, xmax, ymin, ymax, nx, ny, r, use_exact, subpixels):
    return _conc_grid('circular_overlap', 'circular_overlap_grid',
                      [_f(xmin), _f(xmax), _f(ymin), _f(ymax), int(nx), int(ny), _f(r), int(use_exact), int(subpixels)])


def conc_elliptical_overlap_grid(xmin, xmax, ymin, ymax, nx, ny, rx, ry, theta, use_exact, subpixels):
    return _conc_grid('elliptical_overlap', 'elliptical_overlap_grid',
                      [_f(xmin), _f(xmax), _f(ymin), _f(ymax), int(nx), int(ny), _f(rx), _f(ry), _f(theta),
                       int(use_exact), int(subpixels)])


def conc_rectangular_overlap_grid(xmin, xmax, ymin, ymax, nx, ny, w, h, theta, use_exact, subpixels):
    return _conc_grid('rectangular_overlap', 'rectangular_overlap_grid',
                      [_f(xmin), _f(xmax), _f(ymin), _f(ymax), int(nx), int(ny), _f(w), _f(h), _f(theta),
                       int(use_exact), int(subpixels)])


def conc_polygonal_overlap_grid(xmin, xmax, ymin, ymax, nx, ny, vx, vy, use_exact, subpixels):
    return _conc_grid('polygonal_overlap', 'polygonal_overlap_grid',
                      [_f(xmin), _f(xmax), _f(ymin), _f(ymax), int(nx), int(ny), [_f(a) for a in vx],
                       [_f(a) for a in vy], int(use_exact), int(subpixels)])


def install(m, which=('pnpoly', 'circle', 'ellipse', 'rectangle', 'polygon')):
    """Install source-level kernels into the shape modules: symbolic interpretation in
    symbolic mode, concrete interpretation of the same lowered source in replay mode."""
    sym = m.sym
    if 'pnpoly' in which or 'polygon' in which:
        if sym:
            m.shim('regions.shapes.polygon', 'np', NPFacade())
        m.shim('regions.shapes.polygon', 'points_in_polygon',
               points_in_polygon if sym else conc_points_in_polygon, both=True)
    if 'polygon' in which:
        m.shim('regions.shapes.polygon', 'polygonal_overlap_grid',
               polygonal_overlap_grid if sym else conc_polygonal_overlap_grid, both=True)
    if 'circle' in which:
        m.shim('regions.shapes.circle', 'circular_overlap_grid',
               circular_overlap_grid if sym else conc_circular_overlap_grid, both=True)
    if 'ellipse' in which:
        m.shim('regions.shapes.ellipse', 'elliptical_overlap_grid',
               elliptical_overlap_grid if sym else conc_elliptical_overlap_grid, both=True)
    if 'rectangle' in which:
        m.shim('regions.shapes.rectangle', 'rectangular_overlap_grid',
               rectangular_overlap_grid if sym else conc_rectangular_overlap_grid, both=True)
