"""E1 `symx`: proxy symbolic execution of the unmodified Python layer of regions.

Proxy values carrying z3 terms flow through the *real* numpy / astropy.units
machinery (object-dtype arrays, Quantity[dtype=object]).  `bool()` on a symbolic
condition is a solver-decided fork; a run is one path; `explore` re-executes the
harness from a decision trail until every feasible path has been visited.

See DESIGN.md section 2.1.
"""
import builtins
import math
import numbers
import re
import time
from fractions import Fraction

import numpy as np
import z3

import astropy.units as u


class PathAbort(BaseException):
    """Raised to abandon the current path (infeasible / cap)."""


class Inconclusive(Exception):
    """The engine cannot encode something; the check must not claim a verdict."""


# --------------------------------------------------------------------------
# context
# --------------------------------------------------------------------------
class Ctx:
    def __init__(self, trail=(), feas_timeout_ms=4000):
        self.trail = list(trail)
        self.pos = 0
        self.pc = []          # path condition (branch decisions + assumptions)
        self.defs = []        # definitional constraints (sqrt/quotient/token vars)
        self.safety = []      # (pc_len, formula, what): must hold when op executes
        self.fresh = 0
        self.pending = []
        self.ints = {}        # id -> Real-sorted z3 const known to be integral
        self.atoms = {}       # id -> (var, rad_per_unit, cos, sin)
        self.tokens = {}      # str -> SymReal
        self.feas_timeout_ms = feas_timeout_ms
        self.solver = z3.Solver()
        self.solver.set('timeout', feas_timeout_ms)
        self._pushed = 0
        self.nfeas = 0
        self.tfeas = 0.0
        self.notes = []
        self.events = []      # environment events recorded by stubs

    def name(self, prefix):
        self.fresh += 1
        return f'{prefix}!{self.fresh}'

    def assume(self, *fs):
        for f in fs:
            f = f.t if isinstance(f, SymBool) else f
            self.pc.append(f)

    def feasible(self, t):
        """'sat' / 'unsat' / 'unknown' for pc ∧ t  (definitions excluded).
        A fresh, non-incremental solver is used on purpose: z3's incremental core is far
        weaker on non-linear real arithmetic than its one-shot nlsat strategy."""
        t0 = time.time()
        s = z3.Solver()
        s.set('timeout', self.feas_timeout_ms)
        s.add(*self.pc)
        s.add(t)
        r = str(s.check())
        self.nfeas += 1
        self.tfeas += time.time() - t0
        return r


CTX = None


def ctx():
    if CTX is None:
        raise RuntimeError('no symbolic context active')
    return CTX


def decide(t):
    """Fork point.  Returns a concrete bool for z3 Bool term t on this path."""
    c = ctx()
    t = z3.simplify(t)
    if z3.is_true(t):
        return True
    if z3.is_false(t):
        return False
    if c.pos < len(c.trail):
        d = c.trail[c.pos]
        c.pos += 1
        c.pc.append(t if d else z3.Not(t))
        return d
    rt = c.feasible(t)
    if rt == 'unsat':
        # only the False side is possible (if the path itself is feasible)
        c.trail.append(False)
        c.pos += 1
        c.pc.append(z3.Not(t))
        return False
    rf = c.feasible(z3.Not(t))
    c.trail.append(True)
    c.pos += 1
    if rf != 'unsat':
        c.pending.append(list(c.trail[:-1]) + [False])
    c.pc.append(t)
    return True


class Path:
    def __init__(self, c, kind, value):
        self.ctx = c
        self.pc = list(c.pc)
        self.defs = list(c.defs)
        self.safety = list(c.safety)
        self.kind = kind      # 'ok' | 'exc'
        self.value = value
        self.trail = list(c.trail)

    def __repr__(self):
        return f'<Path {self.kind} {self.value!r:.60} pc={len(self.pc)}>'


def explore(fn, max_paths=2000, feas_timeout_ms=4000):
    """Run fn() over all feasible paths.  Returns (paths, complete)."""
    global CTX
    pending = [[]]
    out = []
    while pending:
        if len(out) >= max_paths:
            return out, False
        trail = pending.pop()
        CTX = Ctx(trail, feas_timeout_ms)
        try:
            try:
                r = ('ok', fn())
            except PathAbort:
                r = None
            except Inconclusive:
                raise
            except Exception as e:  # noqa
                r = ('exc', e)
            if r is not None:
                out.append(Path(CTX, *r))
            pending.extend(CTX.pending)
        finally:
            last = CTX
            CTX = None
    explore.last_ctx = last
    return out, True


# --------------------------------------------------------------------------
# lifting
# --------------------------------------------------------------------------
PI = z3.Real('PI')
PI_BOUNDS = z3.And(PI > z3.RealVal('3.14159265358979323'), PI < z3.RealVal('3.14159265358979324'))

_SPECIAL = {}


def _reg_special():
    # concrete floats that stand for an irrational / repeating constant are
    # snapped to what they denote (DESIGN section 1, number model)
    p = math.pi
    for val, term in [
        (p, PI), (p / 2, PI / 2), (2 * p, 2 * PI), (p / 180, PI / 180), (180 / p, 180 / PI),
        (p / 4, PI / 4), (-p, -PI), (-p / 2, -PI / 2),
        (1 / 60, z3.RealVal(1) / 60), (1 / 3600, z3.RealVal(1) / 3600),
        (p / 180 / 60, PI / 10800), (p / 180 / 3600, PI / 648000),
        (180 / p * 60, 10800 / PI), (180 / p * 3600, 648000 / PI),
        (1 / 3, z3.RealVal(1) / 3), (2 / 3, z3.RealVal(2) / 3), (1 / 15, z3.RealVal(1) / 15),
    ]:
        _SPECIAL[float(val)] = term


_reg_special()
USE_SPECIAL = True


def fraction_of_float(v):
    """The decimal number a float prints as (shortest repr): 0.1 -> 1/10."""
    return Fraction(repr(float(v)))


def lift(v):
    """z3 Real term of a python / numpy / symbolic scalar.  TypeError if not numeric."""
    if isinstance(v, SymReal):
        return v.t
    if isinstance(v, (bool, np.bool_)):
        return z3.RealVal(int(v))
    if isinstance(v, (int, np.integer)):
        return z3.RealVal(int(v))
    if isinstance(v, (float, np.floating)):
        f = float(v)
        if f != f or f in (math.inf, -math.inf):
            raise Inconclusive(f'non-finite float {f} met in real-arithmetic mode')
        if USE_SPECIAL and f in _SPECIAL:
            return _SPECIAL[f]
        fr = fraction_of_float(f)
        return z3.RealVal(f'{fr.numerator}/{fr.denominator}')
    if isinstance(v, Fraction):
        return z3.RealVal(f'{v.numerator}/{v.denominator}')
    if isinstance(v, u.Quantity):
        if v.shape == () and v.unit.is_equivalent(u.dimensionless_unscaled):
            return lift(v.to_value(u.dimensionless_unscaled))
        raise TypeError(type(v))
    if isinstance(v, np.ndarray) and v.shape == ():
        return lift(v[()])
    if isinstance(v, z3.ArithRef):
        return v
    raise TypeError(type(v))


def blift(o):
    if isinstance(o, SymBool):
        return o.t
    if isinstance(o, (bool, np.bool_)):
        return z3.BoolVal(bool(o))
    if isinstance(o, z3.BoolRef):
        return o
    if isinstance(o, np.ndarray) and o.shape == ():
        return blift(o[()])
    raise TypeError(type(o))


def is_sym(v):
    return isinstance(v, (SymReal, SymBool))


def has_sym(v):
    if isinstance(v, (SymReal, SymBool)):
        return True
    if isinstance(v, u.Quantity):
        return has_sym(v.view(np.ndarray)) if v.dtype == object else False
    if isinstance(v, np.ndarray):
        if v.dtype == object:
            return any(isinstance(e, (SymReal, SymBool)) for e in v.view(np.ndarray).flat)
        return False
    if isinstance(v, (list, tuple)):
        return any(has_sym(e) for e in v)
    return False


# --------------------------------------------------------------------------
# SymBool
# --------------------------------------------------------------------------
class SymBool:
    dtype = np.dtype('O')

    def __init__(self, t):
        self.t = t

    def __bool__(self):
        return decide(self.t)

    def _b(self, o, f):
        try:
            return SymBool(f(self.t, blift(o)))
        except TypeError:
            return NotImplemented

    def __and__(self, o): return self._b(o, z3.And)
    __rand__ = __and__
    def __or__(self, o): return self._b(o, z3.Or)
    __ror__ = __or__
    def __xor__(self, o): return self._b(o, z3.Xor)
    __rxor__ = __xor__
    def __invert__(self): return SymBool(z3.Not(self.t))
    def logical_not(self): return SymBool(z3.Not(self.t))
    def __eq__(self, o): return self._b(o, lambda a, b: a == b)
    def __ne__(self, o): return self._b(o, z3.Xor)
    __hash__ = None

    def __repr__(self):
        return f'SymBool({z3.simplify(self.t)})'

    # numeric coercions used by np.array([...], dtype=int) etc. are forks
    def __int__(self): return int(bool(self))
    def __index__(self): return int(bool(self))
    def __float__(self): return float(bool(self))


# --------------------------------------------------------------------------
# SymReal
# --------------------------------------------------------------------------
def _is_sum_of_squares(t):
    t = z3.simplify(t)
    def sq(m):
        if z3.is_rational_value(m):
            return m.numerator_as_long() >= 0
        if z3.is_app(m) and m.decl().kind() == z3.Z3_OP_MUL:
            ch = m.children()
            rest = [c for c in ch if not z3.is_rational_value(c)]
            coef = 1
            for c in ch:
                if z3.is_rational_value(c):
                    coef *= Fraction(c.numerator_as_long(), c.denominator_as_long())
            if coef < 0:
                return False
            if len(rest) == 2 and rest[0].eq(rest[1]):
                return True
            return False
        if z3.is_app(m) and m.decl().kind() == z3.Z3_OP_POWER:
            e = m.arg(1)
            return z3.is_rational_value(e) and e.numerator_as_long() == 2 and e.denominator_as_long() == 1
        return False
    if z3.is_app(t) and t.decl().kind() == z3.Z3_OP_ADD:
        return all(sq(c) for c in t.children())
    return sq(t)


class SymReal:
    dtype = np.dtype('O')
    ndim = 0
    shape = ()
    size = 1

    def __init__(self, t, integral=False):
        self.t = t
        self.integral = integral

    # --- arithmetic
    def _bin(self, o, f, keepint=False):
        if isinstance(o, u.UnitBase):
            return NotImplemented
        try:
            ot = lift(o)
        except TypeError:
            return NotImplemented
        integral = keepint and self.integral and _is_integral(o)
        return SymReal(f(self.t, ot), integral)

    def _rbin(self, o, f, keepint=False):
        try:
            ot = lift(o)
        except TypeError:
            return NotImplemented
        integral = keepint and self.integral and _is_integral(o)
        return SymReal(f(ot, self.t), integral)

    def __add__(s, o): return s._bin(o, lambda a, b: a + b, True)
    def __radd__(s, o): return s._rbin(o, lambda a, b: a + b, True)
    def __sub__(s, o): return s._bin(o, lambda a, b: a - b, True)
    def __rsub__(s, o): return s._rbin(o, lambda a, b: a - b, True)

    def __mul__(s, o):
        if isinstance(o, u.UnitBase):
            return u.Quantity(s, o, dtype=object)
        return s._bin(o, lambda a, b: a * b, True)

    def __rmul__(s, o): return s._rbin(o, lambda a, b: a * b, True)

    def __truediv__(s, o):
        if isinstance(o, u.UnitBase):
            return u.Quantity(s, 1 / o, dtype=object)
        try:
            ot = lift(o)
        except TypeError:
            return NotImplemented
        return _div(s.t, ot)

    def __rtruediv__(s, o):
        try:
            ot = lift(o)
        except TypeError:
            return NotImplemented
        return _div(ot, s.t)

    def __floordiv__(s, o):
        q = s.__truediv__(o)
        return q if q is NotImplemented else q.floor()

    def __mod__(s, o):
        q = s.__floordiv__(o)
        if q is NotImplemented:
            return q
        return s - q * o

    def __neg__(s): return SymReal(-s.t, s.integral)
    def __pos__(s): return s
    def __abs__(s): return SymReal(z3.If(s.t >= 0, s.t, -s.t), s.integral)
    absolute = __abs__
    fabs = __abs__

    def __pow__(s, o):
        if isinstance(o, (int, float, np.integer, np.floating)):
            if float(o) == 2:
                return SymReal(s.t * s.t, s.integral)
            if float(o) == 1:
                return s
            if float(o) == 0.5:
                return s.sqrt()
            if float(o) == 3:
                return SymReal(s.t * s.t * s.t, s.integral)
            if float(o) == -1:
                return 1 / s
        return NotImplemented

    def square(s): return SymReal(s.t * s.t, s.integral)

    # --- comparisons
    def _cmp(s, o, f):
        try:
            ot = lift(o)
        except TypeError:
            return NotImplemented
        return SymBool(f(s.t, ot))

    def __lt__(s, o): return s._cmp(o, lambda a, b: a < b)
    def __le__(s, o): return s._cmp(o, lambda a, b: a <= b)
    def __gt__(s, o): return s._cmp(o, lambda a, b: a > b)
    def __ge__(s, o): return s._cmp(o, lambda a, b: a >= b)
    def __eq__(s, o): return s._cmp(o, lambda a, b: a == b)
    def __ne__(s, o): return s._cmp(o, lambda a, b: a != b)

    def __hash__(s):
        # symbolic dictionary / cache keys: two keys land in the same bucket iff their simplified terms are identical (then
        # __eq__ is decided as usual); semantically equal but syntactically different keys are treated as distinct (a miss).
        # The unchanged library never hashes a coordinate; this only lets memoising variants of it run symbolically.
        return hash(('SymReal', z3.simplify(s.t).hash()))

    def __bool__(s):
        return decide(s.t != 0)

    def __repr__(s):
        return f'SymReal({z3.simplify(s.t)})'

    __str__ = __repr__

    # --- functions numpy's object loops look up by name
    def sqrt(s):
        c = ctx()
        t = z3.simplify(s.t)
        if z3.is_rational_value(t):
            fr = Fraction(t.numerator_as_long(), t.denominator_as_long())
            rt = Fraction(math.isqrt(fr.numerator), math.isqrt(fr.denominator)) if fr >= 0 else None
            if rt is not None and rt * rt == fr:
                return SymReal(z3.RealVal(f'{rt.numerator}/{rt.denominator}'))
        key = ('sqrt', t.get_id())
        memo = c.__dict__.setdefault('memo', {})
        if key in memo:
            return SymReal(memo[key][0])
        r = z3.Real(c.name('sqrt'))
        c.defs.append(z3.And(r >= 0, r * r == t))
        if not _is_sum_of_squares(t):
            c.safety.append((len(c.pc), t >= 0, f'sqrt argument {str(t)[:80]} >= 0'))
        memo[key] = (r, t)   # keep t alive so the id is not reused
        return SymReal(r)

    def hypot(s, o):
        o = wrap(o)
        return (s * s + o * o).sqrt()

    def floor(s):
        if s.integral:
            return s
        c = ctx()
        t = z3.simplify(s.t)
        if z3.is_rational_value(t):
            fr = Fraction(t.numerator_as_long(), t.denominator_as_long())
            return SymReal(z3.RealVal(math.floor(fr)), True)
        memo = c.__dict__.setdefault('memo', {})
        key = ('floor', t.get_id())
        if key in memo:
            return SymReal(memo[key][0], True)
        k = z3.Real(c.name('floor'))
        c.ints[k.get_id()] = k
        c.pc.append(z3.And(k <= t, t < k + 1))
        memo[key] = (k, t)
        return SymReal(k, True)

    def ceil(s):
        if s.integral:
            return s
        c = ctx()
        t = z3.simplify(s.t)
        if z3.is_rational_value(t):
            fr = Fraction(t.numerator_as_long(), t.denominator_as_long())
            return SymReal(z3.RealVal(math.ceil(fr)), True)
        memo = c.__dict__.setdefault('memo', {})
        key = ('ceil', t.get_id())
        if key in memo:
            return SymReal(memo[key][0], True)
        k = z3.Real(c.name('ceil'))
        c.ints[k.get_id()] = k
        c.pc.append(z3.And(k - 1 < t, t <= k))
        memo[key] = (k, t)
        return SymReal(k, True)

    __floor__ = floor
    __ceil__ = ceil

    def rint(s):
        # nearest integer; ties go either way in this model (numpy: to even) -- over-approximation
        if s.integral:
            return s
        c = ctx()
        k = z3.Real(c.name('rint'))
        c.ints[k.get_id()] = k
        c.pc.append(z3.And(2 * (k - s.t) <= 1, 2 * (k - s.t) >= -1))
        return SymReal(k, True)

    def __round__(s, n=None):
        raise Inconclusive('round() on a symbol is not modelled')

    def cos(s):
        return SymReal(cs_of(s.t)[0])

    def sin(s):
        return SymReal(cs_of(s.t)[1])

    def arctan2(dy, dx):
        dx = wrap(dx)
        c = ctx()
        memo = c.__dict__.setdefault('memo', {})
        key = ('atan2', z3.simplify(dy.t).get_id(), z3.simplify(dx.t).get_id())
        if key in memo:
            return memo[key][0]
        h = dy.hypot(dx)
        c.safety.append((len(c.pc), h.t > 0, 'arctan2 of a non-zero vector'))
        a = new_atom('atan', rad_per_unit=1.0, cs=(dx.t / h.t, dy.t / h.t))
        memo[key] = (a, z3.simplify(dy.t), z3.simplify(dx.t))
        return a

    def arcsin(s):
        # an angle atom (radians) whose sine is s and whose cosine is the non-negative root: asin ranges over [-pi/2, pi/2]
        c = ctx()
        c.safety.append((len(c.pc), z3.And(s.t >= -1, s.t <= 1), 'arcsin argument in [-1, 1]'))
        return new_atom('asin', rad_per_unit=1.0, cs=((1 - s * s).sqrt().t, s.t))

    def arccos(s):
        c = ctx()
        c.safety.append((len(c.pc), z3.And(s.t >= -1, s.t <= 1), 'arccos argument in [-1, 1]'))
        return new_atom('acos', rad_per_unit=1.0, cs=(s.t, (1 - s * s).sqrt().t))

    def arctan(s):
        h = (1 + s * s).sqrt()
        return new_atom('atan1', rad_per_unit=1.0, cs=(1 / h.t, s.t / h.t))

    def deg2rad(s): return SymReal(s.t * PI / 180)
    radians = deg2rad
    def rad2deg(s): return SymReal(s.t * 180 / PI)
    degrees = rad2deg

    def conjugate(s): return s
    def isfinite(s): return True
    def isnan(s): return False

    @property
    def real(s): return s
    @property
    def imag(s): return 0

    def __getitem__(s, idx):
        if idx == () or idx is Ellipsis:
            return s
        raise IndexError('symbolic scalar')

    __iter__ = None       # a scalar: not iterable (astropy's isiterable() must say no)

    def copy(s): return s
    def __copy__(s): return s
    def __deepcopy__(s, memo): return s
    def item(s): return s

    # --- C-level conversions are concretisation points
    def __float__(s):
        raise Inconclusive(f'float() of symbolic real {s!r:.80}: a C-level consumer was reached '
                           '(missing shim)')

    def __int__(s):
        if s.integral:
            return concretize(s)
        raise Inconclusive(f'int() of non-integral symbolic real {s!r:.80}')

    def __index__(s):
        if s.integral:
            return concretize(s)
        raise TypeError('symbolic real is not an integer')

    def __format__(s, spec):
        return format_token(s, spec)


numbers.Real.register(SymReal)


def _is_integral(o):
    if isinstance(o, SymReal):
        return o.integral
    if isinstance(o, (bool, np.bool_, int, np.integer)):
        return True
    if isinstance(o, (float, np.floating)):
        return float(o).is_integer()
    return False


def _div(a, b):
    """a/b as a fresh quotient symbol q with q*b = a (b != 0 is a safety obligation)."""
    c = ctx()
    a = z3.simplify(a)
    b = z3.simplify(b)
    if z3.is_rational_value(b):
        if b.numerator_as_long() == 0:
            raise ZeroDivisionError('division by zero')
        return SymReal(z3.simplify(a / b))
    c.safety.append((len(c.pc), b != 0, f'divisor {str(b)[:80]} != 0'))
    return SymReal(a / b)


def wrap(v):
    if isinstance(v, SymReal):
        return v
    return SymReal(lift(v), _is_integral(v))


def real(name, integral=False):
    v = z3.Real(name)
    if integral:
        ctx().ints[v.get_id()] = v
    return SymReal(v, integral)


def sbool(name):
    return SymBool(z3.Bool(name))


# --------------------------------------------------------------------------
# integers: concretisation by solver enumeration
# --------------------------------------------------------------------------
def intify(formulas, ints):
    """Substitute every integral (Real-sorted) symbol by ToReal of a genuine Int constant.
    (Adding `v == ToReal(i)` equations instead makes z3's LIRA core diverge.)"""
    subs = [(v, z3.ToReal(z3.Int(str(v) + '_int'))) for v in ints]
    if not subs:
        return list(formulas)
    return [z3.substitute(f, *subs) for f in formulas]


def int_windows(lin, ints, W=8):
    """Implied bounds |a - b| <= W between integral symbols, derived from the *real
    relaxation* of the linear constraints (so they are consequences, not assumptions).
    z3's integer branch-and-bound diverges on translation-invariant problems with unbounded
    integers; with the (redundant) windows it terminates at once."""
    out = []
    rest = list(ints)
    while rest:
        base = rest.pop(0)
        free = []
        for v in rest:
            if _quick(lin + [z3.Or(v - base > W, v - base < -W)], 2000) == 'unsat':
                out.append(z3.And(v - base <= W, v - base >= -W))
            else:
                free.append(v)
        rest = free
    return out


def _quick(formulas, timeout_ms=5000):
    sv = z3.Solver()
    sv.set('timeout', timeout_ms)
    sv.add(*formulas)
    return str(sv.check())


def concretize(s, cap=64):
    """Enumerate, with the solver, the values an integral term can take on this path and fork
    once per value.

    The value set is over-approximated in two sound steps (a superfluous value only adds a
    path whose condition is unsatisfiable): (1) bounds from the real relaxation of the full
    path condition including the needed definitional constraints (non-linear, integers as
    reals); (2) per candidate value, feasibility of the linear part of the path condition with
    genuine integers (LIA) and of the full relaxed condition (NRA).  Mixed integer/non-linear
    queries are never issued (z3 diverges on them)."""
    from . import solve
    c = ctx()
    t = z3.simplify(s.t)
    if z3.is_rational_value(t):
        assert t.denominator_as_long() == 1
        return t.numerator_as_long()
    pc = list(c.pc)
    defs = solve.needed_defs(c.defs, pc + [t == 0])
    full = pc + defs + [PI_BOUNDS]
    lin = [f for f in pc if solve.abstract_nonlinear([f])[1] == 0]
    ints = list(c.ints.values())
    hi = None
    for B in (1, 2, 3, 4, 5, 6, 8, 12, 16, 24, 32, 64):
        if _quick(full + [t >= B]) == 'unsat':
            hi = B
            break
    if hi is None:
        raise Inconclusive(f'unbounded concretisation of {str(t)[:80]} (no upper bound <= 64 provable)')
    lo = None
    for B in (0, 1, 2, 3, 4, 6, 8, 16, 32, 64):
        if _quick(full + [t <= -B - 1]) == 'unsat':
            lo = -B
            break
    if lo is None:
        raise Inconclusive(f'unbounded concretisation of {str(t)[:80]} (no lower bound >= -64 provable)')
    vals = []
    win = int_windows(lin, ints)
    for v in range(lo, hi):
        if _quick(full + [t == v]) == 'unsat':
            continue
        if _quick(intify(lin + win + [t == v], ints), 3000) == 'unsat':
            continue
        vals.append(v)
    if len(vals) > cap:
        raise Inconclusive(f'concretisation of {str(t)[:80]}: more than {cap} values')
    if not vals:
        raise PathAbort()
    for v in vals:
        if decide(t == v):
            return v
    raise PathAbort()


def sint(x):
    """replacement for the builtin int in repo module namespaces"""
    if isinstance(x, SymReal):
        if x.integral:
            return x
        # int() truncates towards zero
        if decide(x.t >= 0):
            return x.floor()
        return x.ceil()
    if isinstance(x, np.ndarray) and x.dtype == object and x.shape == ():
        return sint(x[()])
    return builtins.int(x)


def sfloat(x):
    """replacement for the builtin float in repo module namespaces"""
    if isinstance(x, SymReal):
        return SymReal(x.t, False) if not x.integral else x
    if isinstance(x, np.ndarray) and x.dtype == object and x.shape == ():
        return sfloat(x[()])
    if isinstance(x, str):
        c = CTX
        if c is not None and x.strip() in c.tokens:
            return c.tokens[x.strip()]
    return builtins.float(x)


def sym_is_int(v):
    if isinstance(v, SymReal):
        return v.integral
    from astropy.io.fits.util import _is_int
    return _is_int(v)


# --------------------------------------------------------------------------
# angles
# --------------------------------------------------------------------------
def new_atom(name, rad_per_unit=1.0, cs=None):
    """A fresh angle atom: Real var A (in its own unit) with a (cos, sin) pair."""
    c = ctx()
    n = c.name(name)
    A = z3.Real(n)
    if cs is None:
        cc, ss = z3.Real('c_' + n), z3.Real('s_' + n)
        c.pc.append(cc * cc + ss * ss == 1)
    else:
        cc, ss = cs
    c.atoms[A.get_id()] = (A, float(rad_per_unit), cc, ss)
    return SymReal(A)


_UNIT_RAD = {'deg': math.pi / 180, 'rad': 1.0, 'arcmin': math.pi / 180 / 60, 'arcsec': math.pi / 180 / 3600}


def angle(name, unit='deg'):
    """Symbolic angle Quantity in the given unit, any value."""
    a = new_atom(name, _UNIT_RAD[unit])
    return u.Quantity(a, getattr(u, unit), dtype=object)


def atom_cs(sym):
    """(cos, sin) z3 terms registered for an atom SymReal."""
    _, _, cc, ss = ctx().atoms[sym.t.get_id()]
    return cc, ss


def _approx(term):
    """float approximation of a constant z3 term possibly containing PI."""
    t = z3.simplify(z3.substitute(term, (PI, z3.RealVal(repr(math.pi)))))
    if z3.is_rational_value(t):
        return t.numerator_as_long() / t.denominator_as_long()
    if z3.is_algebraic_value(t):
        return float(t.approx(20).as_fraction())
    raise ValueError(f'not a constant: {term}')


def linform(t):
    """({var_id: (var, float coef)}, float const) of a z3 real term that is linear in atoms."""
    t = z3.simplify(t, som=True)
    terms = {}
    const = [0.0]

    def add(mon, k):
        if z3.is_rational_value(mon) or mon.eq(PI):
            const[0] += k * _approx(mon)
            return
        kind = mon.decl().kind() if z3.is_app(mon) else None
        if kind == z3.Z3_OP_MUL:
            coef = 1.0
            rest = []
            for ch in mon.children():
                try:
                    coef *= _approx(ch)
                except ValueError:
                    rest.append(ch)
            if not rest:
                const[0] += k * coef
                return
            if len(rest) != 1:
                raise Inconclusive(f'non-linear angle term {mon}')
            add(rest[0], k * coef)
            return
        if kind == z3.Z3_OP_DIV:
            a, b = mon.children()
            try:
                bb = _approx(b)
            except ValueError:
                raise Inconclusive(f'non-linear angle term {mon}')
            add(a, k / bb)
            return
        if kind == z3.Z3_OP_ADD:
            for ch in mon.children():
                add(ch, k)
            return
        if kind == z3.Z3_OP_SUB:
            ch = mon.children()
            add(ch[0], k)
            for x in ch[1:]:
                add(x, -k)
            return
        if kind == z3.Z3_OP_UMINUS:
            add(mon.arg(0), -k)
            return
        if kind == z3.Z3_OP_TO_REAL:
            add(mon.arg(0), k)
            return
        if z3.is_const(mon):
            v, c0 = terms.get(mon.get_id(), (mon, 0.0))
            terms[mon.get_id()] = (mon, c0 + k)
            return
        raise Inconclusive(f'unsupported angle term {mon}')

    add(t, 1.0)
    return terms, const[0]


SQ2 = z3.Real('SQRT2')
SQ3 = z3.Real('SQRT3')
ALG_DEFS = z3.And(SQ2 > 0, SQ2 * SQ2 == 2, SQ3 > 0, SQ3 * SQ3 == 3)


def _alg12(k):
    """exact (cos, sin) of k*pi/12 as z3 terms over SQRT2, SQRT3"""
    k %= 24
    one, zero = z3.RealVal(1), z3.RealVal(0)
    base = {0: (one, zero),
            1: (SQ2 * (SQ3 + 1) / 4, SQ2 * (SQ3 - 1) / 4),
            2: (SQ3 / 2, one / 2),
            3: (SQ2 / 2, SQ2 / 2),
            4: (one / 2, SQ3 / 2),
            5: (SQ2 * (SQ3 - 1) / 4, SQ2 * (SQ3 + 1) / 4),
            6: (zero, one)}
    q, r = divmod(k, 6)
    c, s = base[r]
    for _ in range(q):          # rotate by pi/2
        c, s = -s, c
    return c, s


def _const_cs(theta):
    """(cos, sin) of a constant angle: exact for multiples of pi/12 (algebraic numbers over
    sqrt2, sqrt3); otherwise a pair boxed to one ulp around the float values (sound
    over-approximation)"""
    c = ctx()
    q = theta / (math.pi / 12)
    qr = round(q)
    if abs(q - qr) < 1e-9:
        if qr % 6 == 0:
            return [(1, 0), (0, 1), (-1, 0), (0, -1)][(qr // 6) % 4]
        if not c.__dict__.get('alg_defs'):
            c.alg_defs = True
            c.defs.append(ALG_DEFS)
        return _alg12(qr)
    memo = c.__dict__.setdefault('const_angles', {})
    key = round(theta % (2 * math.pi), 12)
    if key not in memo:
        n = c.name('kang')
        cc, ss = z3.Real('c_' + n), z3.Real('s_' + n)
        eps = Fraction(1, 2**51)
        fc, fs = Fraction(math.cos(theta)), Fraction(math.sin(theta))
        c.pc.append(z3.And(cc * cc + ss * ss == 1,
                           cc >= lift(fc - eps), cc <= lift(fc + eps),
                           ss >= lift(fs - eps), ss <= lift(fs + eps)))
        c.notes.append(f'constant angle {theta!r} rad boxed to 2^-51 around its float cos/sin')
        memo[key] = (cc, ss)
    return memo[key]


def cs_of(t):
    """(cos, sin) z3 terms of an angle term (radians) that is a Z-linear combination of atoms
    plus a constant."""
    c = ctx()
    terms, const = linform(t)
    cc, ss = z3.RealVal(1), z3.RealVal(0)

    def rot(c1, s1, c2, s2):
        return c1 * c2 - s1 * s2, s1 * c2 + c1 * s2

    for vid, (var, k) in sorted(terms.items(), key=lambda kv: str(kv[1][0])):
        if vid not in c.atoms:
            raise Inconclusive(f'cos/sin of a non-angle symbol {var}')
        A, rpu, ca, sa = c.atoms[vid]
        n = k / rpu
        nr = round(n)
        if abs(n - nr) > 1e-9:
            # cos/sin of a non-integral multiple of a symbolic angle: some point of the unit
            # circle, unrelated (as far as the encoding knows) to the angle itself -- a sound
            # over-approximation (more models); counter-models are replayed concretely
            memo = c.__dict__.setdefault('frac_atoms', {})
            key = (vid, round(n, 9))
            if key not in memo:
                nm = c.name('fracang')
                fc, fs = z3.Real('c_' + nm), z3.Real('s_' + nm)
                c.pc.append(fc * fc + fs * fs == 1)
                c.notes.append(f'cos/sin of the non-integral multiple {n:.6g} of angle {var} over-approximated by a free unit vector')
                memo[key] = (fc, fs)
            fc, fs = memo[key]
            cc, ss = rot(cc, ss, fc, fs)
            continue
        if nr < 0:
            sa, nr = -sa, -nr
        for _ in range(nr):
            cc, ss = rot(cc, ss, ca, sa)
    if abs(const) > 1e-15:
        kc, ks = _const_cs(const)
        kc = kc if z3.is_expr(kc) else z3.RealVal(kc)
        ks = ks if z3.is_expr(ks) else z3.RealVal(ks)
        cc, ss = rot(cc, ss, kc, ks)
    return z3.simplify(cc), z3.simplify(ss)


def angle_cs(q):
    """(cos, sin) as SymReal/float of an angle Quantity (symbolic or concrete)."""
    v = q.to_value(u.rad) if isinstance(q, u.Quantity) else q
    if isinstance(v, np.ndarray) and v.shape == ():
        v = v[()]
    if isinstance(v, SymReal):
        a, b = cs_of(v.t)
        return SymReal(a), SymReal(b)
    return math.cos(v), math.sin(v)


# --------------------------------------------------------------------------
# decimal tokens
# --------------------------------------------------------------------------
def format_token(s, spec):
    """format(sym, '.pf') -> unique concrete numeral; the value it denotes is N/10^p with
    |N/10^p - s| <= 1/2 10^-p (ties either way)."""
    c = ctx()
    m = re.fullmatch(r'0?\.(\d+)f', spec)
    if not m:
        if spec == '':
            raise Inconclusive('str() of a symbolic real')
        raise Inconclusive(f'format spec {spec!r} on a symbolic real')
    p = int(m.group(1))
    N = z3.Real(c.name('rnd'))
    c.ints[N.get_id()] = N
    scale = 10 ** p
    c.pc.append(z3.And(2 * (N - s.t * scale) <= 1, 2 * (N - s.t * scale) >= -1))
    c.fresh += 1
    if p > 0:
        tok = f'{7000000 + c.fresh}.{"0" * (p - 1)}1'
    else:
        tok = f'{7000000 + c.fresh}'
    c.tokens[tok] = SymReal(N / scale)
    c.__dict__.setdefault('token_info', {})[tok] = (s, p)
    return tok


def token_lookup(x):
    c = CTX
    if c is not None and isinstance(x, str):
        k = x.strip()
        if k in c.tokens:
            return c.tokens[k]
        if k.startswith('-') and k[1:] in c.tokens:
            return -c.tokens[k[1:]]
        if k.startswith('+') and k[1:] in c.tokens:
            return c.tokens[k[1:]]
    return None


# --------------------------------------------------------------------------
# Quantity must accept symbolic payloads: default dtype -> object iff symbolic
# --------------------------------------------------------------------------
_orig_qnew = u.Quantity.__new__


def _qnew(cls, value, unit=None, dtype=np.inexact, *a, **k):
    if (isinstance(value, (list, tuple)) and value and all(isinstance(v, u.Quantity) for v in value)
            and any(has_sym(v) for v in value)):
        # astropy stacks a list of quantities (after converting to the unit of the first one) before
        # its dtype check; do the same with object payloads
        base = value[0].unit if unit is None else u.Unit(unit)
        parts = [np.asarray(v.to_value(base), dtype=object) for v in value]
        value = np.stack(parts) if parts[0].shape != () or len(parts) > 0 else parts
        unit = base
        dtype = object
    if dtype is np.inexact and has_sym(value):
        dtype = object
    return _orig_qnew(cls, value, unit, dtype, *a, **k)


def install_quantity_patch():
    if u.Quantity.__new__ is not _qnew:
        u.Quantity.__new__ = _qnew


def uninstall_quantity_patch():
    u.Quantity.__new__ = _orig_qnew


# --------------------------------------------------------------------------
# SymArray: ndarray subclass whose comparisons stay symbolic (no per-element bool())
# --------------------------------------------------------------------------
class SymArray(np.ndarray):
    _CMP = {'equal': lambda a, b: a == b, 'not_equal': lambda a, b: a != b,
            'less': lambda a, b: a < b, 'less_equal': lambda a, b: a <= b,
            'greater': lambda a, b: a > b, 'greater_equal': lambda a, b: a >= b}

    def __array_ufunc__(self, ufunc, method, *inputs, **kw):
        n = ufunc.__name__
        ins = [np.asarray(i).view(np.ndarray) if isinstance(i, np.ndarray) else i for i in inputs]
        if method == '__call__' and n in self._CMP and not kw:
            a, b = np.broadcast_arrays(*[np.asarray(i, dtype=object) for i in ins])
            out = np.empty(a.shape, dtype=object)
            for idx in np.ndindex(a.shape):
                x, y = a[idx], b[idx]
                r = self._CMP[n](wrap(x) if not isinstance(x, SymBool) else x, y)
                out[idx] = r
            return out.view(SymArray)
        if method == '__call__' and n in ('logical_not', 'invert') and not kw:
            a = ins[0]
            out = np.empty(a.shape, dtype=object)
            for idx in np.ndindex(a.shape):
                x = a[idx]
                out[idx] = (~x) if isinstance(x, SymBool) else (not x)
            return out.view(SymArray)
        if method == '__call__' and n in ('bitwise_and', 'bitwise_or', 'bitwise_xor',
                                          'logical_and', 'logical_or', 'logical_xor') and not kw:
            import operator as _op
            pyop = {'and': _op.and_, 'or': _op.or_, 'xor': _op.xor}[n.split('_')[1]]
            a, b = np.broadcast_arrays(*[np.asarray(i, dtype=object) for i in ins])
            out = np.empty(a.shape, dtype=object)
            for idx in np.ndindex(a.shape):
                x, y = a[idx], b[idx]
                if n.startswith('logical'):
                    x, y = _asb(x), _asb(y)
                out[idx] = pyop(x, y)
            return out.view(SymArray)
        r = getattr(ufunc, method)(*ins, **{k: (tuple(np.asarray(o).view(np.ndarray) for o in v) if k == 'out' else v)
                                            for k, v in kw.items()})
        if isinstance(r, np.ndarray) and r.dtype == object:
            return r.view(SymArray)
        return r


def _asb(x):
    if isinstance(x, SymBool):
        return x
    if isinstance(x, SymReal):
        return SymBool(x.t != 0)
    return bool(x)


def symarray(a):
    return np.asarray(a, dtype=object).view(SymArray)


def term_of(v):
    """z3 term (Real or Bool) of a result value, symbolic or concrete"""
    if isinstance(v, SymBool):
        return v.t
    if isinstance(v, (bool, np.bool_)):
        return z3.BoolVal(bool(v))
    return lift(v)


# --------------------------------------------------------------------------
# SymStr: a str whose content is symbolic (bounded length, 8-bit characters); supports exactly
# lower(), endswith(str | tuple), len(), isinstance(_, str)
# --------------------------------------------------------------------------
class SymStr(str):
    MAXLEN = 12

    def __new__(cls, name='s', chars=None, length=None):
        o = super().__new__(cls, f'<symbolic:{name}>')
        c = ctx()
        if chars is None:
            chars = [z3.Int(f'{name}_ch{k}') for k in range(cls.MAXLEN)]
            length = z3.Int(f'{name}_len')
            c.pc.append(z3.And(length >= 0, length <= cls.MAXLEN))
            for ch in chars:
                c.pc.append(z3.And(ch >= 0, ch <= 255))
        o.chars, o.length, o.name = chars, length, name
        return o

    def lower(self):
        low = [z3.If(z3.And(ch >= 65, ch <= 90), ch + 32, ch) for ch in self.chars]
        return SymStr(self.name + '_lower', low, self.length)

    def upper(self):
        raise Inconclusive('SymStr.upper is not modelled')

    def _ends(self, t):
        if not isinstance(t, str) or isinstance(t, SymStr):
            raise Inconclusive('SymStr.endswith needs concrete suffixes')
        k = len(t)
        if k > self.MAXLEN:
            return z3.BoolVal(False)
        alts = []
        for n in range(k, self.MAXLEN + 1):
            alts.append(z3.And(self.length == n, *[self.chars[n - k + i] == ord(t[i]) for i in range(k)]))
        return z3.Or(*alts) if alts else z3.BoolVal(False)

    def endswith(self, suffix, *a):
        if a:
            raise Inconclusive('SymStr.endswith with start/end')
        if isinstance(suffix, tuple):
            return SymBool(z3.Or(*[self._ends(t) for t in suffix]) if suffix else z3.BoolVal(False))
        return SymBool(self._ends(suffix))

    def __len__(self):
        raise Inconclusive('len() of a SymStr')

    def _unsupported(self, *a, **k):
        raise Inconclusive('unsupported string operation on a symbolic path')

    startswith = split = strip = replace = find = __getitem__ = __add__ = __contains__ = encode = format = _unsupported
    __eq__ = _unsupported
    __hash__ = str.__hash__

    def concrete(self, model):
        n = model.eval(self.length, model_completion=True).as_long()
        return ''.join(chr(model.eval(ch, model_completion=True).as_long()) for ch in self.chars[:n])
