"""WCS stand-ins for symbolic runs (astropy.wcs is C code and SkyCoord cannot hold symbols).

OpaqueWCS  -- an arbitrary invertible WCS: sky points are concrete *labels* (real SkyCoord objects
              with unique coordinates) bound to symbolic pixel positions; a sky point never seen
              before (the 1-arcsec northward probe of pixel_scale_angle_at_skycoord) is bound to a
              fresh symbolic pixel.  world_to_pixel(pixel_to_world(p)) == p by construction.
AffineWCS  -- the tangent-plane linearisation of an undistorted celestial WCS:
              pixel = P0 + (1/s) R(rho) diag(parity, 1) ((lon-lon0) cos(lat0), lat-lat0)
              with symbolic scale s > 0 (deg/pixel), rotation atom rho, symbolic P0.
"""
import numpy as np
import z3
import astropy.units as u
from astropy.coordinates import SkyCoord

from . import symx
from .symx import SymReal


class LabelSky(SkyCoord):
    """SkyCoord whose to_pixel goes through the stub WCS"""

    def to_pixel(self, wcs, origin=0, mode='all'):
        wcs.calls.append(('to_pixel', origin, mode))
        return wcs.world_to_pixel(self)


def _key(sky):
    sph = sky.spherical
    return (sky.frame.name, tuple(np.round(np.atleast_1d(sph.lon.deg), 10)), tuple(np.round(np.atleast_1d(sph.lat.deg), 10)))


class OpaqueWCS:
    def __init__(self, m, name='w'):
        self.m, self.name = m, name
        self.table = {}
        self.n = 0
        self.calls = []

    def _pixkey(self, x, y):
        def k(v):
            if isinstance(v, SymReal):
                return ('s', z3.simplify(v.t).sexpr())
            return ('f', float(v))
        return (k(x), k(y))

    def _label(self, x, y, frame='icrs'):
        pk = self._pixkey(x, y)
        inv = self.__dict__.setdefault('inverse', {})
        if (pk, frame) in inv:
            return inv[(pk, frame)]
        sky = self._label0(x, y, frame)
        inv[(pk, frame)] = sky
        return sky

    def _label0(self, x, y, frame='icrs'):
        self.n += 1
        sky = LabelSky(10.0 + 0.01 * self.n, 20.0 + 0.003 * self.n, unit='deg', frame=frame)
        self.table[_key(sky)] = (x, y)
        return sky

    def sky_at(self, x, y, frame='icrs'):
        """a fresh sky label bound to pixel (x, y)"""
        return self._label(x, y, frame)

    def sky_array(self, xs, ys):
        self.n += 1
        k = len(xs)
        sky = LabelSky(10.0 + 0.01 * self.n + 0.0001 * np.arange(k), 20.0 + 0.003 * self.n + np.zeros(k), unit='deg')
        for i in range(k):
            self.table[_key(sky[i])] = (xs[i], ys[i])
        self.table[_key(sky)] = (list(xs), list(ys))
        return sky

    def pixel_to_world(self, x, y):
        if isinstance(x, np.ndarray) and x.ndim == 1:
            return self.sky_array(list(x), list(y))
        if isinstance(x, np.ndarray) and x.shape == ():
            x, y = x[()], y[()]
        return self._label(x, y)

    def world_to_pixel(self, sky):
        k = _key(sky)
        if k in self.table:
            x, y = self.table[k]
            if isinstance(x, list):
                dt = object
                return np.array(x, dtype=dt), np.array(y, dtype=dt)
            return x, y
        if not sky.isscalar:
            xs, ys = [], []
            for i in range(len(sky)):
                x, y = self.world_to_pixel(sky[i])
                xs.append(x)
                ys.append(y)
            return np.array(xs, dtype=object), np.array(ys, dtype=object)
        # an unknown sky point: bound to a fresh symbolic pixel
        self.n += 1
        x, y = self.m.real(f'{self.name}_x{self.n}'), self.m.real(f'{self.name}_y{self.n}')
        # an invertible WCS maps distinct sky points to distinct pixels
        from .chk import Or
        for (px, py) in list(self.table.values()):
            if isinstance(px, list):
                continue
            self.m.assume(Or(x - px > 0, px - x > 0, y - py > 0, py - y > 0))
        self.table[k] = (x, y)
        return x, y


class AffineWCS:
    def __init__(self, m, lon0=10.0, lat0=20.0, parity=-1):
        self.m = m
        self.lon0, self.lat0, self.parity = lon0, lat0, parity
        self.s = m.pos('scale_deg_per_pix')
        self.rho = m.angle('wcs_rot', 'rad')
        self.c, self.sn = symx.angle_cs(self.rho)
        self.x0, self.y0 = m.real('crpix_x'), m.real('crpix_y')
        self.calls = []

    def world_to_pixel(self, sky):
        sph = sky.icrs.spherical if sky.frame.name != 'icrs' else sky.spherical
        dl = (float(sph.lon.deg) - self.lon0) * float(np.cos(np.deg2rad(self.lat0)))
        db = float(sph.lat.deg) - self.lat0
        u_, v_ = self.parity * dl, db
        x = self.x0 + (self.c * u_ - self.sn * v_) / self.s
        y = self.y0 + (self.sn * u_ + self.c * v_) / self.s
        return x, y

    def north_unit(self):
        """image direction of increasing latitude (unit vector) and of increasing longitude"""
        return (-self.sn, self.c), (self.parity * self.c, self.parity * self.sn)
