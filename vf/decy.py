"""Lower the small Cython subset used by regions/_geometry/*.pyx to plain Python source
(regenerated from the current .pyx text on every run; Cython itself is not installed)."""
import re

CTYPES = (r'(?:unsigned\s+int|int|double|bool|intersections|point|DTYPE_BOOL_t|DTYPE_t|'
          r'np\.ndarray\[[^\]]*\])')


class UnsupportedConstruct(Exception):
    pass


def _split_args(args):
    parts, depth, cur = [], 0, ''
    for ch in args:
        if ch in '[(':
            depth += 1
        if ch in '])':
            depth -= 1
        if ch == ',' and depth == 0:
            parts.append(cur)
            cur = ''
        else:
            cur += ch
    if cur.strip():
        parts.append(cur)
    return parts


def decythonize(src):
    out = []
    lines = src.split('\n')
    i = 0
    structs = {}
    while i < len(lines):
        ln = lines[i]
        st = ln.strip()
        ind = ln[:len(ln) - len(ln.lstrip())]
        if re.match(r'(cimport|from\s+\S+\s+cimport)\b', st):
            m = re.match(r'from\s+\.(\w+)\s+cimport\s+(.*)', st)
            if m:
                out.append(f'{ind}__cimport__({m.group(1)!r}, {m.group(2)!r})')
            i += 1
            continue
        if st.startswith('cdef extern'):
            i += 1
            while i < len(lines) and (lines[i].startswith((' ', '\t')) or not lines[i].strip()):
                i += 1
            continue
        m = re.match(r'ctypedef\s+struct\s+(\w+)\s*:', st)
        if m:
            name = m.group(1)
            fields = []
            i += 1
            while i < len(lines) and lines[i].startswith((' ', '\t')) and lines[i].strip():
                t, f = lines[i].split()
                fields.append((t, f))
                i += 1
            structs[name] = fields
            out.append(f'__struct__({name!r}, {fields!r})')
            continue
        if st.startswith('ctypedef'):
            i += 1
            continue
        m = re.match(r'(cdef|def|cpdef)\s+(?:(?:%s)\s+)?(\w+)\s*\((.*)$' % CTYPES, st)
        if m and not st.startswith('cdef extern'):
            header = st
            while not header.rstrip().endswith(':'):
                i += 1
                header += ' ' + lines[i].strip()
            m = re.match(r'(?:cdef|def|cpdef)\s+(?:(?:%s)\s+)?(\w+)\s*\((.*)\)\s*:' % CTYPES, header)
            if not m:
                raise UnsupportedConstruct(f'function header: {header}')
            name, args = m.group(1), m.group(2)
            names = [p.strip().split()[-1] for p in _split_args(args)]
            out.append(f'{ind}def {name}({", ".join(names)}):')
            i += 1
            continue
        m = re.match(r'cdef\s+(%s)\s+(.*)$' % CTYPES, st)
        if m:
            typ, rest = m.group(1), m.group(2)
            if '=' in rest:
                out.append(f'{ind}{rest}')
            elif typ in structs:
                for v in rest.split(','):
                    out.append(f'{ind}{v.strip()} = {typ}()')
            else:
                out.append(f'{ind}pass')
            i += 1
            continue
        if st.startswith('cdef ') or st.startswith('cpdef '):
            raise UnsupportedConstruct(f'cdef form: {st}')
        out.append(ln)
        i += 1
    return '\n'.join(out), structs
