"""Independent geometric definitions (the specification side).  Every function works on
symbolic values (SymReal/SymBool) and on plain floats alike, so the same oracle is used to
prove and to replay.  Strict comparisons go through chk.lt, which carries the robustness
margin (0 when proving)."""
from .chk import And, Or, Not, If, Implies, Iff, lt, Abs, Max, Min


def sq(x):
    return x * x


def to_frame(px, py, cx, cy, c, s):
    """coordinates of p in the frame centred at (cx,cy) whose x-axis is (c,s)"""
    dx, dy = px - cx, py - cy
    return c * dx + s * dy, -s * dx + c * dy


# ---- disk
def disk_in(px, py, cx, cy, r):
    return lt(sq(px - cx) + sq(py - cy), sq(r))


def disk_out(px, py, cx, cy, r):
    return lt(sq(r), sq(px - cx) + sq(py - cy))


# ---- ellipse with full axes (w,h), rotated by angle with (c,s)
def ellipse_in(px, py, cx, cy, w, h, c, s):
    uu, vv = to_frame(px, py, cx, cy, c, s)
    return lt(4 * sq(uu) * sq(h) + 4 * sq(vv) * sq(w), sq(w) * sq(h))


def ellipse_out(px, py, cx, cy, w, h, c, s):
    uu, vv = to_frame(px, py, cx, cy, c, s)
    return lt(sq(w) * sq(h), 4 * sq(uu) * sq(h) + 4 * sq(vv) * sq(w))


# ---- rectangle with full sides (w,h)
def rect_in(px, py, cx, cy, w, h, c, s):
    uu, vv = to_frame(px, py, cx, cy, c, s)
    return And(lt(2 * Abs(uu), w), lt(2 * Abs(vv), h))


def rect_out(px, py, cx, cy, w, h, c, s):
    uu, vv = to_frame(px, py, cx, cy, c, s)
    return Or(lt(w, 2 * Abs(uu)), lt(h, 2 * Abs(vv)))


# ---- polygon, even-odd rule by an UPWARD ray (the implementation casts a rightward ray;
# parity does not depend on the direction for points off the boundary)
def _cross(ax, ay, bx, by, px, py):
    return (bx - ax) * (py - ay) - (by - ay) * (px - ax)


def poly_on_boundary_free(px, py, vx, vy):
    """p is not on any edge line segment's supporting degenerate configurations:
    p's x differs from every vertex x (generic position for the upward ray) and p is not
    on an edge."""
    n = len(vx)
    conds = []
    for i in range(n):
        conds.append(Or(lt(px, vx[i]), lt(vx[i], px)))
    return And(*conds)


def poly_parity_up(px, py, vx, vy):
    """even-odd membership via an upward ray from p; division-free.
    Returns a list of crossing indicators (Bool) whose XOR is membership."""
    n = len(vx)
    cr = []
    for i in range(n):
        j = (i + n - 1) % n
        # edge j->i straddles the vertical line x = px
        strad = Xor_(lt(px, vx[i]), lt(px, vx[j]))   # one endpoint strictly right, the other not
        # the crossing is above p:  y_edge(px) > py.  Division-free with the sign of (vx[i]-vx[j])
        d = vx[i] - vx[j]
        num = (vy[j] - py) * d + (vy[i] - vy[j]) * (px - vx[j])   # (y_edge - py) * d
        above = Or(And(d > 0, lt(0, num)), And(d < 0, lt(num, 0)))
        cr.append(And(strad, above))
    return cr


def Xor_(a, b):
    return Not(Iff(a, b))


def xor_chain(bs):
    r = False
    for b in bs:
        r = Xor_(r, b)
    return r


def triangle_in(px, py, vx, vy):
    """strictly inside a non-degenerate triangle: three orientation signs agree"""
    d0 = _cross(vx[0], vy[0], vx[1], vy[1], px, py)
    d1 = _cross(vx[1], vy[1], vx[2], vy[2], px, py)
    d2 = _cross(vx[2], vy[2], vx[0], vy[0], px, py)
    return Or(And(lt(0, d0), lt(0, d1), lt(0, d2)), And(lt(d0, 0), lt(d1, 0), lt(d2, 0)))


def triangle_out(px, py, vx, vy):
    d0 = _cross(vx[0], vy[0], vx[1], vy[1], px, py)
    d1 = _cross(vx[1], vy[1], vx[2], vy[2], px, py)
    d2 = _cross(vx[2], vy[2], vx[0], vy[0], px, py)
    area2 = _cross(vx[0], vy[0], vx[1], vy[1], vx[2], vy[2])
    pos = And(area2 > 0, Or(lt(d0, 0), lt(d1, 0), lt(d2, 0)))
    neg = And(area2 < 0, Or(lt(0, d0), lt(0, d1), lt(0, d2)))
    return Or(pos, neg)


def convex_in(px, py, vx, vy):
    """strictly inside a convex, counter-clockwise polygon = left of every edge"""
    n = len(vx)
    return And(*[lt(0, _cross(vx[i], vy[i], vx[(i + 1) % n], vy[(i + 1) % n], px, py)) for i in range(n)])


def convex_out(px, py, vx, vy):
    n = len(vx)
    return Or(*[lt(_cross(vx[i], vy[i], vx[(i + 1) % n], vy[(i + 1) % n], px, py), 0) for i in range(n)])
