"""Check framework: dual-mode harnesses (symbolic / concrete replay), obligations,
vacuity witnesses, known findings, evidence files, exit codes.

A *case* is a harness function h(m) taking a Maker.  In symbolic mode the maker hands
out symbols and `m.require(name, formula)` posts a proof obligation under the current
path condition.  In concrete mode (replay) the same harness runs on plain floats
against the un-stubbed library and `require` evaluates the formula.
"""
import hashlib
import json
import math
import os
import sys
import time
import traceback
from fractions import Fraction

import numpy as np
import z3
import astropy.units as u

from . import symx
from . import solve
from .symx import SymReal, SymBool, Inconclusive

HERE = os.path.dirname(os.path.dirname(os.path.abspath(__file__)))
REPO = os.environ.get('VERIF_REPO', '/repo')


# --------------------------------------------------------------------------
# generic logic helpers (work on SymBool / SymReal and on python values)
# --------------------------------------------------------------------------
def _isb(x):
    return isinstance(x, SymBool)


def And(*xs):
    xs = [x for x in xs]
    if any(_isb(x) for x in xs):
        return SymBool(z3.And(*[symx.blift(x) for x in xs]))
    return all(bool(x) for x in xs)


def Or(*xs):
    if any(_isb(x) for x in xs):
        return SymBool(z3.Or(*[symx.blift(x) for x in xs]))
    return any(bool(x) for x in xs)


def Not(x):
    if _isb(x):
        return SymBool(z3.Not(x.t))
    return not bool(x)


def Implies(a, b):
    return Or(Not(a), b)


def Iff(a, b):
    if _isb(a) or _isb(b):
        return SymBool(symx.blift(a) == symx.blift(b))
    return bool(a) == bool(b)


def Xor(a, b):
    return Not(Iff(a, b))


def If(c, a, b):
    if _isb(c):
        if _isb(a) or _isb(b) or isinstance(a, (bool, np.bool_)):
            return SymBool(z3.If(c.t, symx.blift(a), symx.blift(b)))
        return SymReal(z3.If(c.t, symx.lift(a), symx.lift(b)), symx._is_integral(a) and symx._is_integral(b))
    return a if c else b


def Abs(x):
    return abs(x)


def Max(a, b):
    return If(a >= b, a, b)


def Min(a, b):
    return If(a <= b, a, b)


def margin():
    """strictness margin used by oracles: 0 when proving, > 0 when asking for robust models"""
    if symx.CTX is not None:
        return SymReal(solve.MARGIN)
    return 0.0


def lt(a, b):
    """a < b strictly, by the oracle's margin.  In concrete (replay) mode strictness must
    survive floating-point rounding: the gap has to exceed 1e-9 relative to the operands,
    otherwise the position counts as 'within rounding of the boundary' (exempt)."""
    if symx.CTX is None and not isinstance(a, SymReal) and not isinstance(b, SymReal):
        a, b = float(a), float(b)
        return a + 1e-9 * max(1.0, abs(a), abs(b)) < b
    return a + margin() < b


def Eq(a, b, rtol=1e-9):
    """numeric equality: exact over the reals when proving; within rounding when replaying on floats"""
    if isinstance(a, (SymReal, SymBool)) or isinstance(b, (SymReal, SymBool)):
        return a == b
    try:
        fa, fb = float(a), float(b)
    except (TypeError, ValueError):
        return a == b
    return abs(fa - fb) <= rtol * max(1.0, abs(fa), abs(fb))


def as_bool_term(x):
    return symx.blift(x)


# --------------------------------------------------------------------------
# Maker
# --------------------------------------------------------------------------
class Violation(Exception):
    pass


class Maker:
    """Input factory + obligation sink.  mode: 'sym' | 'conc'."""

    def __init__(self, mode, values=None, rng=None):
        self.mode = mode
        self.values = values or {}
        self.rng = rng            # concrete probing: draw missing inputs on demand
        self.drawn = {}
        self.inputs = []        # (name, kind, info)
        self.obligations = []   # sym: (name, pc_len, term, key)
        self.failed = []        # conc: (name, key)
        self.checked = 0
        self._shims = []
        self.notes = []

    # ---- inputs
    @property
    def sym(self):
        return self.mode == 'sym'

    def real(self, name, lo=None, hi=None, pos=False):
        if self.sym:
            v = symx.real(name)
            self.inputs.append((name, 'real', v.t))
            if pos:
                symx.ctx().assume(v.t > 0)
                self.__dict__.setdefault('pos_terms', []).append(v.t)
            if lo is not None:
                symx.ctx().assume(v.t >= symx.lift(lo))
            if hi is not None:
                symx.ctx().assume(v.t <= symx.lift(hi))
            return v
        if name not in self.values and self.rng is not None:
            span = getattr(self, 'probe_span', None)
            if span is not None and lo is None and hi is None:
                v_ = self.rng.uniform(-span, span)
                self.values[name] = self.drawn[name] = (abs(v_) + 1e-3) if pos else v_
            else:
                self.values[name] = self.drawn[name] = _draw_real(self.rng, lo, hi, pos)
        return float(self.values.get(name, 1.0 if pos else 0.0))

    def string(self, name):
        """a symbolic string (<= 12 characters, 8-bit); replay uses the string read off the model"""
        if self.sym:
            v = symx.SymStr(name)
            self.inputs.append((name, 'str', (v.chars, v.length)))
            return v
        if name not in self.values and self.rng is not None:
            alphabet = 'abAB.-_ /regRGfitscrdz9'
            self.values[name] = self.drawn[name] = ''.join(self.rng.choice(alphabet) for _ in range(self.rng.randint(0, 12)))
        return str(self.values.get(name, ''))

    def pos(self, name, hi=None):
        return self.real(name, pos=True, hi=hi)

    def integer(self, name, lo=None, hi=None):
        if self.sym:
            v = symx.real(name, integral=True)
            self.inputs.append((name, 'int', v.t))
            if hi is not None:
                self.__dict__.setdefault('int_hi', []).append(v.t == hi)
            if lo is not None:
                symx.ctx().assume(v.t >= lo)
            if hi is not None:
                symx.ctx().assume(v.t <= hi)
            return v
        if name not in self.values and self.rng is not None:
            v = self.rng.choice([0, 1, -1, 2, 3, -7, 100, -1000, 4096, 8192, 40000, 70000, 2**31 + 5, -40000])
            if lo is not None:
                v = max(v, lo)
            if hi is not None:
                v = min(v, hi)
            self.values[name] = self.drawn[name] = v
        return int(self.values.get(name, 0))

    def boolean(self, name):
        if self.sym:
            b = z3.Bool(name)
            self.inputs.append((name, 'bool', b))
            return SymBool(b)
        if name not in self.values and self.rng is not None:
            self.values[name] = self.drawn[name] = self.rng.random() < 0.5
        return bool(self.values.get(name, False))

    def angle(self, name, unit='deg'):
        """any angle, as a Quantity in `unit`; symbolic mode: an atom with (cos, sin) pair"""
        if self.sym:
            a = symx.new_atom(name, symx._UNIT_RAD[unit])
            _, _, cc, ss = symx.ctx().atoms[a.t.get_id()]
            self.inputs.append((name, 'angle', (a.t, cc, ss, unit)))
            return u.Quantity(a, getattr(u, unit), dtype=object)
        if name not in self.values and self.rng is not None:
            deg = self.rng.choice([0.0, 30.0, 90.0, 135.0, 200.0, -45.0, 270.0, 359.0, self.rng.uniform(-400, 400)])
            self.values[name] = self.drawn[name] = deg * (math.pi / 180) / symx._UNIT_RAD[unit]
        return u.Quantity(float(self.values.get(name, 0.0)), getattr(u, unit))

    # ---- environment
    def shim(self, module, attr, value, both=False):
        """rebind a name in an imported repo module for this run (symbolic mode only, unless
        both=True)"""
        if not self.sym and not both:
            return
        import importlib
        mod = importlib.import_module(module) if isinstance(module, str) else module
        sentinel = object()
        old = mod.__dict__.get(attr, sentinel)
        self._shims.append((mod, attr, old, sentinel))
        setattr(mod, attr, value)

    def unshim(self):
        for mod, attr, old, sentinel in reversed(self._shims):
            if old is sentinel:
                try:
                    delattr(mod, attr)
                except AttributeError:
                    pass
            else:
                setattr(mod, attr, old)
        self._shims = []

    # ---- assumptions / obligations
    def assume(self, cond):
        if self.sym:
            if isinstance(cond, SymBool):
                symx.ctx().assume(cond.t)
            elif not cond:
                raise symx.PathAbort()
        else:
            if not bool(cond):
                raise symx.PathAbort()

    def require(self, name, cond, key=None, use=None):
        """use: names (prefixes) of the lemmas this obligation needs -- the proof is first attempted with the input
        assumptions and only those lemmas as hypotheses (a subset of the hypotheses, hence sound)"""
        self.checked += 1
        if self.sym and use is not None:
            self.__dict__.setdefault('use', {})[len(self.obligations)] = tuple(use)
        if self.sym:
            if isinstance(cond, SymBool):
                term = cond.t
            elif isinstance(cond, z3.BoolRef):
                term = cond
            else:
                term = z3.BoolVal(bool(cond))
            self.obligations.append((name, len(symx.ctx().pc), term, key))
        else:
            try:
                ok = bool(cond)
            except Exception:
                ok = False
            if not ok:
                self.failed.append((name, key))

    def note(self, s):
        self.notes.append(s)

    def define(self, name, value):
        """a named abbreviation: a fresh real U with the definition U == value recorded like a lemma called 'def <name>', so that
        obligations with a `use=` list see the definition only when they ask for it (a definitional extension: conservative)"""
        if not self.sym or not isinstance(value, SymReal):
            return value
        c = symx.ctx()
        U = SymReal(z3.Real(c.name('def_' + name.replace(' ', '_'))))
        eq = U.t == value.t
        c.assume(eq)
        self.__dict__.setdefault('lemma_terms', []).append(('def ' + name, eq))
        return U

    def lemma(self, name, cond, use=None):
        """an obligation that, once posted, is also available as a hypothesis to the later
        obligations of this path (proof guidance: it is itself proved under the hypotheses
        that precede it, so nothing is assumed without proof)"""
        self.require('lemma: ' + name, cond, use=use)
        if self.sym and isinstance(cond, SymBool):
            symx.ctx().assume(cond.t)
            self.__dict__.setdefault('lemma_terms', []).append((name, cond.t))


# --------------------------------------------------------------------------
# model -> concrete inputs
# --------------------------------------------------------------------------
def concrete_inputs(inputs, model):
    vals = {}
    for name, kind, info in inputs:
        if kind == 'real':
            vals[name] = float(solve.model_value(model, info))
        elif kind == 'int':
            v = solve.model_value(model, info)
            vals[name] = int(round(v))
            if abs(v - round(v)) > 1e-9:
                vals['__nonintegral__'] = True
        elif kind == 'bool':
            vals[name] = bool(solve.model_value(model, info))
        elif kind == 'str':
            chars, length = info
            n = int(round(solve.model_value(model, length)))
            vals[name] = ''.join(chr(int(round(solve.model_value(model, ch))) % 256) for ch in chars[:max(0, min(n, len(chars)))])
        elif kind == 'angle':
            a, cc, ss, unit = info
            c = solve.model_value(model, cc)
            s = solve.model_value(model, ss)
            rad = math.atan2(s, c)
            vals[name] = rad / symx._UNIT_RAD[unit]
    return vals


# --------------------------------------------------------------------------
# case execution
# --------------------------------------------------------------------------
def _draw_real(rng, lo, hi, pos):
    """concrete probe values: small dyadics, pixel-edge alignments, large magnitudes"""
    kind = rng.random()
    if kind < 0.3:
        v = rng.choice([0.0, 0.5, 1.0, 1.5, 2.0, 0.25, 3.0, 0.75, 4.5, 7.0]) * rng.choice([1, -1])
    elif kind < 0.55:
        v = rng.choice([0, 1, 3, 10, 1000, 3000, 5000, 8192, 10000]) * rng.choice([1, -1]) + 0.5 \
            + rng.choice([1, -1]) * 2.0 ** (-rng.randint(2, 20))
    elif kind < 0.8:
        v = rng.uniform(-5, 5)
    else:
        v = rng.uniform(-1e4, 1e4)
    if pos:
        v = abs(v)
        if v == 0:
            v = 0.5
    if lo is not None and v < lo:
        v = lo + (abs(v) % max((hi - lo) if hi is not None else 1.0, 1e-9))
    if hi is not None and v > hi:
        v = hi - (abs(v) % max((hi - lo) if lo is not None else hi if hi > 0 else 1.0, 1e-9))
        if pos and v <= 0:
            v = hi / 2
    return float(v)


def rescue(res, prop, h, seed=0, budget_s=25.0, max_probes=400, span=None, found_by='concrete rescue probe'):
    """The symbolic engine met a construct it cannot encode (so no verdict can be claimed for
    this case).  To still *detect* a broken property, the harness is run concretely against
    the real library on probe inputs; a failing obligation is a replayed violation.  A clean
    rescue changes nothing: the case stays inconclusive."""
    import random
    rng = random.Random(1234 + seed)
    t0 = time.time()
    n = 0
    while n < max_probes and time.time() - t0 < budget_s:
        n += 1
        m = Maker('conc', {}, rng=rng)
        if span is not None:
            m.probe_span = span
        symx.uninstall_quantity_patch()
        exc = None
        try:
            try:
                h(m)
            except symx.PathAbort:
                continue
            except Exception as e:  # noqa
                exc = f'{type(e).__name__}: {e}'
                m.failed.append(('unexpected-exception', None))
        finally:
            m.unshim()
            symx.install_quantity_patch()
        if m.failed:
            fnames = [f for f, _ in m.failed]
            entry = {'obligation': fnames[0], 'replayed_failures': fnames, 'inputs': dict(m.values),
                     'exception': exc, 'case': res['name'], 'found_by': found_by}
            kf = KNOWN.match(prop, {k for _, k in m.failed}, fnames, res['name'])
            if kf is not None:
                entry['known'] = kf
                res['known'].append(entry)
            else:
                entry['replay'] = _replay_path(prop, res['name'], dict(m.values), fnames[0])
                res['violations'].append(entry)
            break
    res.setdefault('notes', []).append(f'{found_by}: {n} probes')


class CaseResult(dict):
    pass


def run_concrete(h, values):
    """Replay a harness on concrete values against the real library.
    Returns (failed obligations list, exception or None)."""
    m = Maker('conc', values)
    symx.uninstall_quantity_patch()
    try:
        try:
            h(m)
        except symx.PathAbort:
            return [], 'assumption-not-met'
        except Exception as e:  # noqa
            if os.environ.get('VERIF_DEBUG'):
                traceback.print_exc()
            return [('unexpected-exception', None)], f'{type(e).__name__}: {e}'
    finally:
        m.unshim()
        symx.install_quantity_patch()
    return m.failed, None


def _replay_path(prop, case, values, obname):
    os.makedirs(os.path.join(HERE, 'replays'), exist_ok=True)
    blob = json.dumps({'property': prop, 'case': case, 'inputs': values, 'obligation': obname},
                      sort_keys=True, default=str)
    hsh = hashlib.sha1(blob.encode()).hexdigest()[:10]
    path = os.path.join(HERE, 'replays', f'{prop}-{hsh}.json')
    with open(path, 'w') as f:
        f.write(blob)
    return path


def _robust_constraints(inputs, pos_terms=()):
    cs = [t >= z3.RealVal('1/4') for t in pos_terms]
    for name, kind, info in inputs:
        if kind in ('real', 'int'):
            cs.append(z3.And(info <= 10000, info >= -10000))
    return cs


def _try_candidates(res, h, inputs, hyps_base, neg, obname, key, timeout_ms, prop, ints=(), pos_terms=(), int_hi=()):
    """A sat answer was seen for hyps ∧ neg.  Look for a model that replays on the real
    library.  Records a violation / known finding / inconclusive entry."""
    attempts = []
    rb = _robust_constraints(inputs, pos_terms)
    variants = [
        [solve.MARGIN == z3.RealVal('1/1000')] + rb,
        [solve.MARGIN == 0] + list(int_hi),            # integers at their declared upper bounds
        [solve.MARGIN == z3.RealVal('1/1000000')] + rb,
        [solve.MARGIN == 0] + rb,
        [solve.MARGIN == 0],
    ]
    # last resort: real inputs on the dyadic grid 2^-40 (exactly representable doubles whose small sums stay exact), for
    # counterexample regions so thin that an arbitrary real model collapses onto their boundary when converted to a double
    grid = []
    for n_, k_, i_ in inputs:
        if k_ == 'real':
            grid.append(i_ * (2 ** 40) == z3.ToReal(z3.Int(f'grid!{n_}')))
    if grid:
        variants.append([solve.MARGIN == 0] + rb + grid)
    # generic position: every real input at least 1/4 away from zero (a counterexample that needs a non-zero offset is otherwise
    # often returned with an offset of 1e-18, which the replay tolerance swallows)
    away = [z3.Or(i_ >= z3.RealVal('1/4'), i_ <= -z3.RealVal('1/4')) for n_, k_, i_ in inputs if k_ == 'real']
    if away:
        variants.insert(1, [solve.MARGIN == 0] + rb + away)
    tried = 0
    for extra in variants:
        for seed in (0, 7):
            fs = hyps_base + extra + [neg]
            inp = inputs
            if ints:
                subs = [(v, z3.ToReal(z3.Int(str(v) + '_int'))) for v in ints]
                fs = [z3.substitute(f, *subs) for f in fs]
                inp = [(n_, k_, (z3.substitute(i_, *subs) if k_ in ('real', 'int') else i_)) for n_, k_, i_ in inputs]
            r, mdl = solve.check_sat(fs, timeout_ms if not (grid and extra and extra[-1] is grid[-1]) else min(timeout_ms, 8000), seed=seed)
            if r != 'sat':
                continue
            vals = concrete_inputs(inp, mdl)
            if vals.pop('__nonintegral__', False):
                continue
            tried += 1
            failed, exc = run_concrete(h, vals)
            attempts.append({'inputs': vals, 'failed': [f[0] for f in failed], 'exc': exc})
            if failed:
                keys = {k for _, k in failed}
                fnames = [f for f, _ in failed]
                entry = {'obligation': obname, 'replayed_failures': fnames, 'inputs': vals,
                         'exception': exc, 'case': res['name']}
                kf = KNOWN.match(prop, keys | {key}, fnames + [obname, str(exc)], res['name'])
                if kf is not None:
                    entry['known'] = kf
                    res['known'].append(entry)
                else:
                    entry['replay'] = _replay_path(prop, res['name'], vals, obname)
                    res['violations'].append(entry)
                return True
    res['inconclusive'].append(
        f'candidate for {obname!r} did not reproduce on the real library after {tried} models: '
        f'{json.dumps(attempts[:2], default=str)[:600]}')
    return False


def atom_links(c):
    """unit-circle constraints of angle atoms act as definitions for slicing"""
    out = []
    for (A, rpu, cc, ss) in c.atoms.values():
        if z3.is_const(cc) and z3.is_const(ss):
            out.append(cc * cc + ss * ss == 1)
    return out


def run_case(prop, name, h, timeout_ms=30000, max_paths=400, allow_exceptions=(), shard=None, preprobe=None):
    """Symbolically explore harness h; discharge every obligation on every path.
    Returns a picklable CaseResult."""
    t0 = time.time()
    solve.STATS = solve.Stats()
    res = CaseResult(name=name, paths=0, obligations=0, nontrivial=0, violations=[], known=[],
                     inconclusive=[], vacuity=0, samples=[], safety=0, exc_paths=0, notes=[])
    symx.install_quantity_patch()
    if preprobe:
        # cheap falsifier before the symbolic work (for obligations whose counter-MODELS are hard for the solver, e.g. NRA + UF):
        # a concrete run that fails an obligation is a replayed violation; a clean probe decides nothing
        rescue(res, prop, h, budget_s=preprobe.get('budget_s', 8.0), max_probes=preprobe.get('n', 300), span=preprobe.get('span'),
               found_by='concrete pre-probe')
        if res['violations']:
            res['wall_s'] = round(time.time() - t0, 3)
            res['stats'] = solve.STATS.as_dict()
            return res

    def wrapped():
        m = Maker('sym')
        symx.ctx().maker = m
        from . import kernels as _kern
        # validators call np.isfinite / np.isscalar on the candidate value: numpy has no object
        # loop for isfinite, so the attributes module sees a facade (symbols denote finite reals)
        m.shim('regions.core.attributes', 'np', _kern.NPFacade())
        try:
            return h(m)
        finally:
            m.unshim()

    try:
        paths, complete = symx.explore(wrapped, max_paths=max_paths)
    except Inconclusive as e:
        res['inconclusive'].append(f'engine: {e}')
        rescue(res, prop, h)
        res['wall_s'] = round(time.time() - t0, 3)
        res['stats'] = solve.STATS.as_dict()
        return res
    if not complete:
        res['inconclusive'].append(f'path cap {max_paths} hit')
    res['paths'] = len(paths)
    seen_sym = set()
    seen_keys = set()
    ob_index = [0]
    for p in paths:
        if res['violations']:
            break          # one replayed violation decides the case
        m = p.ctx.maker
        for n in m.notes:
            if n not in res['notes']:
                res['notes'].append(n)
        base = p.defs + [symx.PI_BOUNDS]
        ints = list(p.ctx.ints.values())
        if p.kind == 'exc' and not isinstance(p.value, tuple(allow_exceptions)):
            res['exc_paths'] += 1
            tb = f'{type(p.value).__name__}: {p.value}'
            if os.environ.get('VERIF_DEBUG'):
                traceback.print_exception(type(p.value), p.value, p.value.__traceback__)
            r, mdl = solve.check_sat(p.pc + base + [solve.MARGIN == 0], timeout_ms)
            if r == 'sat' and ints:
                # feasible over the reals: is it feasible with genuine integers (linearised)?
                lin, nnl = solve.abstract_nonlinear(symx.intify(p.pc + base + [solve.MARGIN == 0], ints))
                linpc = [f for f in p.pc if solve.abstract_nonlinear([f])[1] == 0]
                win = symx.intify(symx.int_windows(linpc, ints), ints) if len(ints) <= 24 else []
                r2, _ = solve.check_sat(lin + win, timeout_ms)
                if r2 == 'unsat':
                    r = 'unsat'
            if r == 'sat':
                _try_candidates(res, h, m.inputs, p.pc + base, z3.BoolVal(True),
                                f'unexpected-exception {tb[:160]}', None, timeout_ms, prop, ints, getattr(m, 'pos_terms', ()), getattr(m, 'int_hi', ()))
            elif r == 'unknown':
                res['inconclusive'].append(f'exception path of unknown feasibility: {tb[:200]}')
            continue
        # safety obligations (sqrt argument >= 0, divisor != 0)
        for (plen, f, what) in p.safety:
            res['safety'] += 1
            r, mdl = solve.prove(p.pc[:plen] + base + [solve.MARGIN == 0], f, timeout_ms, link=base + atom_links(p.ctx))
            if r == 'cex':
                _try_candidates(res, h, m.inputs, p.pc[:plen] + base, z3.Not(f),
                                f'safety: {what}', None, timeout_ms, prop, ints)
            elif r == 'unknown':
                res['inconclusive'].append(f'safety obligation unknown: {what}')
        if not m.obligations:
            continue
        # vacuity witness: the path condition with all definitions is satisfiable
        r, _ = solve.check_sat(p.pc + base + [solve.MARGIN == 0], min(timeout_ms, 10000))
        if r == 'unknown' and getattr(m, 'lemma_terms', None):
            # lemmas are proved consequences of what precedes them (each is an obligation of this path):
            # a model of the path condition without them is a model with them
            drop = {t.get_id() for (_, t) in m.lemma_terms}
            sub = [f for f in p.pc if f.get_id() not in drop]
            r, _ = solve.check_sat(sub + solve.needed_defs(base, sub) + [solve.MARGIN == 0], min(timeout_ms, 10000))
        if r == 'unknown' and all(kind_ == 'real' for (_, kind_, _) in m.inputs):
            # the solver found no model in time: look for a concrete witness instead (inputs drawn at random; a run in which
            # every assumption of the harness holds shows that the path condition is satisfiable)
            import random as _random
            rng = _random.Random(12345)
            pos = {t.get_id() for t in getattr(m, 'pos_terms', ())}
            for _ in range(4000):
                vals = {n_: (abs(rng.uniform(-2, 2)) + 1e-3 if t_.get_id() in pos else rng.uniform(-2, 2)) for (n_, _, t_) in m.inputs}
                try:
                    failed, exc = run_concrete(h, vals)
                except BaseException:  # noqa
                    continue
                if exc is None and not failed:
                    r = 'sat'
                    res['notes'].append('vacuity witness found by concrete search (solver unknown)')
                    break
        if r == 'sat':
            res['vacuity'] += 1
        for ob_no, (obname, plen, term, key) in enumerate(m.obligations):
            if len(res['violations']) >= 1:
                break
            ob_index[0] += 1
            if shard is not None and ob_index[0] % shard[1] != shard[0]:
                continue
            res['obligations'] += 1
            hyps = p.pc[:plen] + solve.needed_defs(base, p.pc[:plen] + [term])
            before = solve.STATS.trivial
            r = None
            use = getattr(m, 'use', {}).get(ob_no)
            if use is not None:
                lem = getattr(m, 'lemma_terms', [])
                drop = {t.get_id() for (ln, t) in lem if not any(ln.startswith(u_) for u_ in use)}
                sub = [f for f in p.pc[:plen] if f.get_id() not in drop]
                sub = sub + solve.needed_defs(base, sub + [term])
                r, mdl = solve.prove(sub + [solve.MARGIN == 0], term, min(timeout_ms, 15000), link=base + atom_links(p.ctx))
                if r != 'valid':
                    r = None
            if r is None:
                r, mdl = solve.prove(hyps + [solve.MARGIN == 0], term, timeout_ms, link=base + atom_links(p.ctx))
            if r == 'cex' and ints:
                # the relaxed (integers as reals) problem has a model: decide with integrality
                # (linearised: non-linear subterms abstracted; mixed Int/non-linear queries make z3
                # diverge, so they are not attempted -- the relaxed model goes to replay instead)
                fs = symx.intify(hyps + [solve.MARGIN == 0, term], ints)
                lin, nnl = solve.abstract_nonlinear(fs[:-1] + [z3.Not(fs[-1])])
                linpc = [f for f in p.pc[:plen] if solve.abstract_nonlinear([f])[1] == 0]
                win = symx.intify(symx.int_windows(linpc, ints), ints)
                r2, m2 = solve.check_sat(lin + win, timeout_ms)
                if r2 == 'unsat':
                    r, mdl = 'valid', None
                elif r2 == 'sat' and nnl == 0:
                    r, mdl = 'cex', m2
                # else: keep the relaxed counter-model as a candidate
            if not (z3.is_true(term) or z3.is_false(term)):
                ssig = (obname, term.sexpr()[:2000])
                if ssig not in seen_sym:
                    seen_sym.add(ssig)
                    res['symbolic_goals'] = res.get('symbolic_goals', 0) + 1
            if solve.STATS.trivial == before:
                sig = (obname, z3.simplify(term).sexpr()[:2000])
                if sig not in seen_keys:
                    seen_keys.add(sig)
                    res['nontrivial'] += 1
            if len(res['samples']) < 3 and solve.STATS.trivial == before:
                res['samples'].append({
                    'case': name, 'obligation': obname,
                    'path_condition': [str(z3.simplify(c))[:200] for c in p.pc[:plen]][:12],
                    'goal': str(z3.simplify(term))[:400], 'verdict': r})
            if r == 'cex':
                _try_candidates(res, h, m.inputs, hyps, z3.Not(term), obname, key, timeout_ms, prop, ints, getattr(m, 'pos_terms', ()))
            elif r == 'unknown':
                res['inconclusive'].append(f'{obname}: solver unknown ({mdl})')
    if not res['violations'] and any('unexpected-exception' in str(x) and 'did not reproduce' in str(x) for x in res['inconclusive']):
        # an exception that the symbolic run met but no concrete input reproduces is an artefact of the engine (a numpy
        # call that cannot take symbols): the verdict stays inconclusive, but the concrete probe may still find a
        # reproduced failure of the changed code
        rescue(res, prop, h)
    if res['obligations'] and not res['vacuity']:
        res['inconclusive'].append('no vacuity witness: no obligation-bearing path has a satisfiable '
                                   'path condition')
    if not res['obligations'] and not res['violations'] and not res['known']:
        res['inconclusive'].append('harness posted no obligation on any path')
    res['wall_s'] = round(time.time() - t0, 3)
    res['stats'] = solve.STATS.as_dict()
    res['feas_queries'] = sum(p.ctx.nfeas for p in paths)
    return res


# --------------------------------------------------------------------------
# known findings
# --------------------------------------------------------------------------
class Known:
    def __init__(self):
        self.entries = []
        path = os.path.join(HERE, 'known_findings.json')
        if os.path.exists(path):
            with open(path) as f:
                data = json.load(f)
            self.entries = data.get('findings', [])

    def match(self, prop, keys, obnames, case):
        for e in self.entries:
            if e.get('status', 'open') != 'open' or e['property'] != prop:
                continue
            cp = e.get('case_prefix')
            if cp and not any(case.startswith(x) for x in (cp if isinstance(cp, list) else [cp])):
                continue
            if e.get('key') in keys:
                return e
            oc = e.get('obligation_contains')
            if oc and any(oc in str(o) for o in obnames):
                return e
        return None


KNOWN = Known()


# --------------------------------------------------------------------------
# translation-validation case (lowered .pyx executed concretely == compiled extension)
# --------------------------------------------------------------------------
def tv_case(prop, kernels, seed, n=40):
    from . import pyxsym
    t0 = time.time()
    res = CaseResult(name='translation-validation/' + '+'.join(kernels), paths=0, obligations=0, nontrivial=0,
                     violations=[], known=[], inconclusive=[], vacuity=1, samples=[], safety=0, exc_paths=0,
                     notes=[])
    try:
        r = pyxsym.translation_validation(seed=seed, n=n, kernels=kernels)
    except Exception as e:  # noqa
        res['inconclusive'].append(f'translation validation could not run: {type(e).__name__}: {e}')
        r = None
    if r is not None:
        res['obligations'] = r['compared']
        res['nontrivial'] = r['compared']
        res['extra'] = {'programs': r['programs'], 'compared': r['compared'], 'max_abs_diff': r['max_abs_diff'],
                        'disagreements': len(r['disagreements'])}
        if r['disagreements']:
            res['inconclusive'].append('SOURCE-DIVERGENCE: lowered .pyx and compiled extension disagree: '
                                       + json.dumps(r['disagreements'][:2])[:500])
    res['wall_s'] = round(time.time() - t0, 3)
    res['stats'] = solve.Stats().as_dict()
    return res


def Sqrt(x):
    if isinstance(x, SymReal):
        return x.sqrt()
    return math.sqrt(x)


def sharded(prop, name, h, k, **kw):
    """k cases that explore the same harness but each discharge every k-th obligation
    (exploration is cheap, proving is not): lets one heavy harness use several cores"""
    import functools
    if k <= 1:
        return [(name, functools.partial(run_case, prop, name, h, **kw))]
    return [(f'{name}#shard{i + 1}of{k}', functools.partial(run_case, prop, name, h, shard=(i, k), **kw))
            for i in range(k)]
