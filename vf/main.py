"""Entry point: python -m vf.main Cxx [--tier quick|thorough] [--replay path] [--case substr] [-j N]"""
import argparse
import importlib
import json
import multiprocessing as mp
import os
import sys
import time
import traceback

HERE = os.path.dirname(os.path.dirname(os.path.abspath(__file__)))

_CASES = None
_PROP = None


def _run_one(i):
    name, fn = _CASES[i]
    t0 = time.time()
    try:
        r = fn()
    except BaseException as e:  # noqa
        r = {'name': name, 'paths': 0, 'obligations': 0, 'nontrivial': 0, 'violations': [], 'known': [],
             'inconclusive': [f'harness crash: {type(e).__name__}: {e}\n{traceback.format_exc()[-1500:]}'],
             'vacuity': 0, 'samples': [], 'stats': {'unsat': 0, 'sat': 0, 'unknown': 0,
                                                     'trivial_closed_by_simplifier': 0, 'solver_time_s': 0.0},
             'crash': True}
    r = dict(r)
    r.setdefault('wall_s', round(time.time() - t0, 3))
    return r


def main(argv=None):
    global _CASES, _PROP
    ap = argparse.ArgumentParser()
    ap.add_argument('prop')
    ap.add_argument('--tier', default=os.environ.get('VERIF_TIER', 'quick'), choices=['quick', 'thorough'])
    ap.add_argument('--replay')
    ap.add_argument('--case', default=None, help='only run cases whose name contains this')
    ap.add_argument('-j', type=int, default=int(os.environ.get('VERIF_JOBS', '16')))
    ap.add_argument('--no-evidence', action='store_true')
    ap.add_argument('-v', action='store_true')
    args = ap.parse_args(argv)
    prop = args.prop
    _PROP = prop
    seed = int(os.environ.get('VERIF_SEED', '0') or 0)
    t0 = time.time()
    mod = importlib.import_module(f'checks.{prop}')

    if args.replay:
        from vf import chk
        with open(args.replay) as f:
            rp = json.load(f)
        cases = dict(mod.harnesses('thorough'))
        cases.update(dict(mod.harnesses('quick')))
        h = cases.get(rp['case'])
        if h is None:
            print(f'HARNESS-ERROR unknown case {rp["case"]}')
            return 2
        failed, exc = chk.run_concrete(h, rp['inputs'])
        print(json.dumps({'case': rp['case'], 'inputs': rp['inputs'], 'failed': failed, 'exception': exc},
                         default=str, indent=1))
        if failed:
            print(f'VIOLATION property={prop} replay={args.replay}')
            return 1
        print('NOT-REPRODUCED')
        return 0

    cases = mod.cases(args.tier, seed)
    if args.case:
        cases = [c for c in cases if args.case in c[0]]
    _CASES = cases
    if args.j > 1 and len(cases) > 1:
        ctx = mp.get_context('fork')
        with ctx.Pool(min(args.j, len(cases))) as pool:
            results = []
            for r in pool.imap_unordered(_run_one, range(len(cases)), chunksize=1):
                results.append(r)
                if args.v:
                    print(f"  [{r['name']}] paths={r.get('paths')} obl={r.get('obligations')} "
                          f"viol={len(r['violations'])} known={len(r['known'])} inc={len(r['inconclusive'])} "
                          f"{r.get('wall_s')}s", flush=True)
    else:
        results = []
        for i in range(len(cases)):
            r = _run_one(i)
            results.append(r)
            if args.v:
                print(f"  [{r['name']}] paths={r.get('paths')} obl={r.get('obligations')} "
                      f"viol={len(r['violations'])} known={len(r['known'])} inc={len(r['inconclusive'])} "
                      f"{r.get('wall_s')}s", flush=True)
    results.sort(key=lambda r: r['name'])
    from vf import evidence
    code = evidence.report(prop, args.tier, seed, mod, results, time.time() - t0,
                           write=not (args.no_evidence or args.case))
    return code


if __name__ == '__main__':
    sys.exit(main())
