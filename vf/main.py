"""Entry point: python -m vf.main Cxx [--tier quick|thorough] [--replay path] [--case substr] [-j N]"""
import argparse
import importlib
import json
import multiprocessing as mp
import os
import sys
import time
import traceback

HERE = os.path.dirname(os.path.dirname(os.path.abspath(__file__)))

_CASES = None
_PROP = None


def _run_one(i):
    name, fn = _CASES[i]
    t0 = time.time()
    try:
        r = fn()
    except BaseException as e:  # noqa
        r = {'name': name, 'paths': 0, 'obligations': 0, 'nontrivial': 0, 'violations': [], 'known': [],
             'inconclusive': [f'harness crash: {type(e).__name__}: {e}\n{traceback.format_exc()[-1500:]}'],
             'vacuity': 0, 'samples': [], 'stats': {'unsat': 0, 'sat': 0, 'unknown': 0,
                                                     'trivial_closed_by_simplifier': 0, 'solver_time_s': 0.0},
             'crash': True}
    r = dict(r)
    r.setdefault('wall_s', round(time.time() - t0, 3))
    return r


def _child(i, conn):
    try:
        conn.send(_run_one(i))
    except BaseException as e:  # noqa
        try:
            conn.send({'name': _CASES[i][0], 'violations': [], 'known': [],
                       'inconclusive': [f'worker failed: {type(e).__name__}: {e}'], 'stats': {}})
        except Exception:  # noqa
            pass
    finally:
        conn.close()


def _schedule(cases, jobs, deadline, verbose):
    """one forked process per case, at most `jobs` at a time, each under a wall-clock deadline
    (a solver call that ignores its own timeout must not hang the check: the case is reported
    as inconclusive instead)"""
    ctx = mp.get_context('fork')
    pending = list(range(len(cases)))
    running = {}
    results = []

    def show(r):
        if verbose:
            print(f"  [{r['name']}] paths={r.get('paths')} obl={r.get('obligations')} "
                  f"viol={len(r['violations'])} known={len(r['known'])} inc={len(r['inconclusive'])} "
                  f"{r.get('wall_s')}s", flush=True)

    while pending or running:
        while pending and len(running) < max(1, jobs):
            i = pending.pop(0)
            pc, cc = ctx.Pipe(duplex=False)
            p = ctx.Process(target=_child, args=(i, cc), daemon=True)
            p.start()
            cc.close()
            running[i] = (p, pc, time.time())
        done = []
        for i, (p, pc, t0) in running.items():
            r = None
            if pc.poll(0.02):
                try:
                    r = pc.recv()
                except EOFError:
                    r = {'name': cases[i][0], 'violations': [], 'known': [], 'stats': {},
                         'inconclusive': ['worker died without a result']}
            elif not p.is_alive():
                r = {'name': cases[i][0], 'violations': [], 'known': [], 'stats': {},
                     'inconclusive': [f'worker exited with code {p.exitcode} without a result']}
            elif time.time() - t0 > deadline:
                p.kill()
                r = {'name': cases[i][0], 'violations': [], 'known': [], 'stats': {}, 'wall_s': round(time.time() - t0, 1),
                     'inconclusive': [f'case exceeded its wall-clock budget of {deadline:.0f}s (killed)']}
            if r is not None:
                done.append(i)
                p.join(timeout=2)
                results.append(r)
                show(r)
        for i in done:
            del running[i]
        if not done:
            time.sleep(0.05)
    return results


def main(argv=None):
    global _CASES, _PROP
    import warnings
    warnings.filterwarnings('ignore')
    ap = argparse.ArgumentParser()
    ap.add_argument('prop')
    ap.add_argument('--tier', default=os.environ.get('VERIF_TIER', 'quick'), choices=['quick', 'thorough'])
    ap.add_argument('--replay')
    ap.add_argument('--case', default=None, help='only run cases whose name contains this')
    ap.add_argument('-j', type=int, default=int(os.environ.get('VERIF_JOBS', '16')))
    ap.add_argument('--no-evidence', action='store_true')
    ap.add_argument('--cross', type=int, default=None, help='z3 unsat verdicts per case re-decided by cvc5 (default 0 quick, 2 thorough)')
    ap.add_argument('-v', action='store_true')
    args = ap.parse_args(argv)
    prop = args.prop
    _PROP = prop
    if 'VERIF_CROSS' not in os.environ or args.cross is not None:
        os.environ['VERIF_CROSS'] = str(args.cross if args.cross is not None else (2 if args.tier == 'thorough' else 0))
    seed = int(os.environ.get('VERIF_SEED', '0') or 0)
    t0 = time.time()
    mod = importlib.import_module(f'checks.{prop}')

    if args.replay:
        from vf import chk
        with open(args.replay) as f:
            rp = json.load(f)
        cases = dict(mod.harnesses('thorough'))
        cases.update(dict(mod.harnesses('quick')))
        h = cases.get(rp['case'])
        if h is None:
            print(f'HARNESS-ERROR unknown case {rp["case"]}')
            return 2
        failed, exc = chk.run_concrete(h, rp['inputs'])
        print(json.dumps({'case': rp['case'], 'inputs': rp['inputs'], 'failed': failed, 'exception': exc},
                         default=str, indent=1))
        if failed:
            print(f'VIOLATION property={prop} replay={args.replay}')
            return 1
        print('NOT-REPRODUCED')
        return 0

    cases = mod.cases(args.tier, seed)
    if args.case:
        cases = [c for c in cases if args.case in c[0]]
    _CASES = cases
    deadline = float(os.environ.get('VERIF_CASE_TIMEOUT', '420' if args.tier == 'quick' else '2400'))
    results = _schedule(cases, args.j, deadline, args.v)
    results.sort(key=lambda r: r['name'])
    from vf import evidence
    code = evidence.report(prop, args.tier, seed, mod, results, time.time() - t0,
                           write=not (args.no_evidence or args.case))
    return code


if __name__ == '__main__':
    sys.exit(main())
