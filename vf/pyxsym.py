"""E2 `pyxsym`: interpret the Cython kernels of regions/_geometry from their *source*.

The .pyx text is lowered (decy) to Python and executed by this AST interpreter.  Values are
python numbers (concrete execution, used for translation validation against the compiled
extension) or z3 terms (symbolic execution); a symbolic `if` runs both arms and merges the
stores with ite.  Accumulators stay sums of indicators (ISum) so that sub-pixel counts keep
their structure.  Anything outside the supported subset raises UnsupportedConstruct, which
makes the dependent check inconclusive (never a false alarm).
"""
import ast
import math
import os
from fractions import Fraction

import z3

from .decy import decythonize, UnsupportedConstruct

REPO = os.environ.get('VERIF_REPO', '/repo')


def is_z3(v):
    return isinstance(v, z3.ExprRef)


def R(v):
    """z3 term of a scalar interpreter value"""
    if is_z3(v):
        return v
    if isinstance(v, bool):
        return z3.BoolVal(v)
    if isinstance(v, int):
        return z3.RealVal(v)
    if isinstance(v, float):
        from .symx import lift
        return lift(v)
    if isinstance(v, Fraction):
        return z3.RealVal(f'{v.numerator}/{v.denominator}')
    if isinstance(v, (ISum, Ite)):
        return v.term()
    raise TypeError(f'no term for {type(v)}')


def Rnum(v):
    """Real-sorted term (bools become 0/1)"""
    t = R(v)
    if z3.is_bool(t):
        return z3.If(t, z3.RealVal(1), z3.RealVal(0))
    return t


class ISum:
    """const + sum_k ite(cond_k, coef_k, 0)"""
    __slots__ = ('const', 'items')

    def __init__(self, const=0, items=()):
        self.const = const
        self.items = tuple(items)

    def term(self):
        t = Rnum(self.const)
        for c, k in self.items:
            t = t + z3.If(c, Rnum(k), z3.RealVal(0))
        return t

    def scaled(self, f):
        return ISum(f(self.const), [(c, f(k)) for c, k in self.items])


class Ite:
    __slots__ = ('c', 'a', 'b')

    def __init__(self, c, a, b):
        self.c, self.a, self.b = c, a, b

    def term(self):
        return z3.If(self.c, Rnum(self.a), Rnum(self.b))


class Struct:
    def __init__(self, tname, fields, structs):
        self.__dict__['_t'] = tname
        self.__dict__['_f'] = {}
        for t, f in fields:
            self._f[f] = Struct(t, structs[t], structs) if t in structs else 0.0

    def copy(self):
        o = Struct.__new__(Struct)
        o.__dict__['_t'] = self._t
        o.__dict__['_f'] = {k: (v.copy() if isinstance(v, Struct) else v) for k, v in self._f.items()}
        return o


def _num(v):
    return isinstance(v, (int, float, Fraction)) and not isinstance(v, bool)


def merge(c, a, b):
    """value of `c ? a : b`"""
    if a is b:
        return a
    if _num(a) and _num(b) and a == b:
        return a
    if isinstance(a, bool) and isinstance(b, bool) and a == b:
        return a
    if isinstance(a, Struct) and isinstance(b, Struct):
        o = a.copy()
        for k in o._f:
            o._f[k] = merge(c, a._f[k], b._f[k])
        return o
    if isinstance(a, list) and isinstance(b, list) and len(a) == len(b):
        return [merge(c, x, y) for x, y in zip(a, b)]
    if a is None:
        return b
    if b is None:
        return a
    sa = a if isinstance(a, ISum) else (ISum(a) if _num(a) else None)
    sb = b if isinstance(b, ISum) else (ISum(b) if _num(b) else None)
    if sa is not None and sb is not None and (sa.items or sb.items or True) and _num(sa.const) and _num(sb.const):
        # common prefix of indicator items stays; the rest is guarded by c / not c
        n = 0
        while n < len(sa.items) and n < len(sb.items) and sa.items[n][0] is sb.items[n][0] \
                and sa.items[n][1] == sb.items[n][1]:
            n += 1
        items = list(sa.items[:n])
        items += [(z3.And(c, cc), k) for cc, k in sa.items[n:]]
        items += [(z3.And(z3.Not(c), cc), k) for cc, k in sb.items[n:]]
        if sa.const != sb.const:
            items.append((c, sa.const - sb.const))
        return ISum(sb.const, items)
    if isinstance(a, (ISum, Ite)) or isinstance(b, (ISum, Ite)):
        return Ite(c, a, b)
    ta, tb = R(a), R(b)
    if z3.is_bool(ta) != z3.is_bool(tb):
        ta, tb = Rnum(a), Rnum(b)
    return z3.If(c, ta, tb)


class _Return(Exception):
    pass


class Interp:
    """Interpreter for one lowered module (plus the modules it cimports from)."""

    def __init__(self, module, symbolic=True, hooks=None, max_depth=6, repo=None):
        self.repo = repo or os.environ.get('VERIF_REPO', '/repo')
        self.symbolic = symbolic
        self.funcs = {}
        self.structs = {}
        self.globals = {}
        self.side = []        # definitional constraints of fresh symbols (sqrt)
        self.safety = []      # (guard, formula, what)
        self.raises = []      # (guard, description)
        self.unwound = []     # guards under which the recursion bound was hit
        self.fresh = 0
        self.hooks = hooks or {}
        self.max_depth = max_depth
        self.depth = {}
        self.sources = {}
        self.feasible = None   # optional callback(guard) -> bool for pruning
        self.load(module)

    # ---- loading
    def load(self, module):
        if module in self.sources:
            return
        path = os.path.join(self.repo, 'regions', '_geometry', module + '.pyx')
        with open(path) as f:
            text = f.read()
        src, structs = decythonize(text)
        self.sources[module] = src
        self.structs.update(structs)
        tree = ast.parse(src)
        for n in tree.body:
            if isinstance(n, ast.FunctionDef):
                self.funcs[n.name] = n
            elif isinstance(n, ast.Expr) and isinstance(n.value, ast.Call) and \
                    getattr(n.value.func, 'id', '') == '__cimport__':
                self.load(n.value.args[0].value)

    # ---- builtins
    def fresh_real(self, prefix):
        self.fresh += 1
        return z3.Real(f'{prefix}!k{self.fresh}')

    def builtin(self, name, args, guard):
        if name in self.hooks:
            return self.hooks[name](self, args, guard)
        if name == 'sqrt':
            a = args[0]
            if not is_z3(a) and not isinstance(a, (ISum, Ite)):
                return math.sqrt(a)
            a = Rnum(a)
            r = self.fresh_real('ksqrt')
            self.side.append(z3.And(r >= 0, r * r == a))
            self.safety.append((guard, a >= 0, 'sqrt argument >= 0'))
            return r
        if name in ('fabs', 'abs'):
            a = args[0]
            if not is_z3(a) and not isinstance(a, (ISum, Ite)):
                return abs(a)
            a = Rnum(a)
            return z3.If(a >= 0, a, -a)
        if name in ('cos', 'sin', 'asin'):
            a = args[0]
            if not is_z3(a):
                return getattr(math, name)(a)
            raise UnsupportedConstruct(f'{name} of a symbolic term without a hook')
        if name == 'range':
            for a in args:
                if not isinstance(a, int):
                    raise UnsupportedConstruct('range() with a symbolic trip count')
            return range(*args)
        if name in ('max', 'min'):
            a, b = args
            if not (is_z3(a) or is_z3(b)):
                return max(a, b) if name == 'max' else min(a, b)
            ta, tb = Rnum(a), Rnum(b)
            return z3.If(ta >= tb, ta, tb) if name == 'max' else z3.If(ta <= tb, ta, tb)
        if name in self.structs:
            return Struct(name, self.structs[name], self.structs)
        if name == 'Exception' or name == 'NotImplementedError':
            return (name, args)
        raise UnsupportedConstruct(f'call to {name}')

    def call(self, name, args, guard=None):
        guard = z3.BoolVal(True) if guard is None else guard
        if name in self.funcs and name not in self.hooks:
            d = self.depth.get(name, 0)
            if d >= self.max_depth:
                self.unwound.append((guard, name))
                return self.fresh_real('unwound') if self.symbolic else float('nan')
            self.depth[name] = d + 1
            try:
                return self.run(self.funcs[name], args, guard)
            finally:
                self.depth[name] = d
        return self.builtin(name, args, guard)

    # ---- function execution with guarded returns
    def run(self, fn, args, guard):
        params = [a.arg for a in fn.args.args]
        if len(params) != len(args):
            raise UnsupportedConstruct(f'arity mismatch calling {fn.name}')
        env = {}
        for p, v in zip(params, args):
            env[p] = v.copy() if isinstance(v, Struct) else v
        rets = []
        self.block(fn.body, env, guard, rets)
        if not rets:
            return None
        val = rets[-1][1]
        for g, v in reversed(rets[:-1]):
            val = merge(g, v, val) if not (isinstance(g, bool) or z3.is_true(g)) else v
        return val

    def _live(self, guard):
        g = z3.simplify(guard) if is_z3(guard) else guard
        if isinstance(g, bool):
            return g
        if z3.is_false(g):
            return False
        if self.feasible is not None and not z3.is_true(g):
            return self.feasible(g)
        return True

    def block(self, stmts, env, guard, rets):
        for s in stmts:
            if not self._live(guard):
                return z3.BoolVal(False)
            guard = self.stmt(s, env, guard, rets)
        return guard

    @staticmethod
    def _snap(env):
        out = {}
        for k, v in env.items():
            if isinstance(v, list):
                out[k] = [row[:] if isinstance(row, list) else row for row in v]
            elif isinstance(v, Struct):
                out[k] = v.copy()
            else:
                out[k] = v
        return out

    def stmt(self, s, env, guard, rets):
        if isinstance(s, (ast.Expr, ast.Pass, ast.Import, ast.ImportFrom)):
            if isinstance(s, ast.Expr) and isinstance(s.value, ast.Call):
                self.ev(s.value, env, guard)
            return guard
        if isinstance(s, ast.Assign):
            v = self.ev(s.value, env, guard)
            for t in s.targets:
                self.assign(t, v, env, guard)
            return guard
        if isinstance(s, ast.AugAssign):
            cur = self.ev(s.target, env, guard)
            v = self.ev(s.value, env, guard)
            self.assign(s.target, self.binop(s.op, cur, v, guard), env, guard)
            return guard
        if isinstance(s, ast.Return):
            rets.append((guard, self.ev(s.value, env, guard) if s.value is not None else None))
            return z3.BoolVal(False)
        if isinstance(s, ast.For):
            it = self.ev(s.iter, env, guard)
            if not isinstance(it, range):
                raise UnsupportedConstruct('for over a non-range')
            if s.orelse:
                raise UnsupportedConstruct('for/else')
            for k in it:
                self.assign(s.target, k, env, guard)
                guard = self.block(s.body, env, guard, rets)
            return guard
        if isinstance(s, ast.If):
            c = self.ev(s.test, env, guard)
            if isinstance(c, (ISum, Ite)):
                c = c.term() != 0
            if is_z3(c):
                if not z3.is_bool(c):
                    c = c != 0
                c = z3.simplify(c)
                if z3.is_true(c):
                    c = True
                elif z3.is_false(c):
                    c = False
            if is_z3(c) and self.feasible is not None:
                # a branch whose guard the pruning oracle refutes is not taken at all (no merge)
                if not self._live(z3.And(guard, z3.Not(c))):
                    c = True
                elif not self._live(z3.And(guard, c)):
                    c = False
            if not is_z3(c):
                return self.block(s.body if c else s.orelse, env, guard, rets)
            e1 = self._snap(env)
            e2 = self._snap(env)
            g1 = self.block(s.body, e1, z3.And(guard, c), rets)
            g2 = self.block(s.orelse, e2, z3.And(guard, z3.Not(c)), rets)
            live1 = not z3.is_false(z3.simplify(g1))
            live2 = not z3.is_false(z3.simplify(g2))
            for k in set(e1) | set(e2):
                v1, v2 = e1.get(k), e2.get(k)
                if live1 and not live2:
                    env[k] = v1
                elif live2 and not live1:
                    env[k] = v2
                else:
                    env[k] = self._merge_store(c, v1, v2)
            return z3.simplify(z3.Or(g1, g2))
        if isinstance(s, ast.Raise):
            self.raises.append((guard, ast.unparse(s)))
            if not self.symbolic or z3.is_true(z3.simplify(guard)):
                raise KernelRaise(ast.unparse(s))
            return z3.BoolVal(False)
        raise UnsupportedConstruct(f'statement {type(s).__name__}: {ast.unparse(s)[:80]}')

    @staticmethod
    def _merge_store(c, v1, v2):
        if isinstance(v1, list) and isinstance(v2, list) and v1 and isinstance(v1[0], list):
            return [[merge(c, x, y) for x, y in zip(r1, r2)] for r1, r2 in zip(v1, v2)]
        return merge(c, v1, v2)

    def assign(self, t, v, env, guard):
        if isinstance(t, ast.Name):
            env[t.id] = v.copy() if isinstance(v, Struct) else v
        elif isinstance(t, ast.Tuple):
            vs = list(v)
            if len(vs) != len(t.elts):
                raise UnsupportedConstruct('tuple assignment arity')
            vs = [x.copy() if isinstance(x, Struct) else x for x in vs]
            for tt, vv in zip(t.elts, vs):
                self.assign(tt, vv, env, guard)
        elif isinstance(t, ast.Subscript):
            arr = self.ev(t.value, env, guard)
            idx = self.ev(t.slice, env, guard)
            if isinstance(idx, tuple):
                arr[idx[0]][idx[1]] = v
            else:
                arr[idx] = v
        elif isinstance(t, ast.Attribute):
            obj = self.ev(t.value, env, guard)
            if not isinstance(obj, Struct) or t.attr not in obj._f:
                raise UnsupportedConstruct(f'attribute store {ast.unparse(t)}')
            obj._f[t.attr] = v.copy() if isinstance(v, Struct) else v
        else:
            raise UnsupportedConstruct(f'assignment target {ast.unparse(t)}')

    def binop(self, op, a, b, guard):
        sym = is_z3(a) or is_z3(b) or isinstance(a, (ISum, Ite)) or isinstance(b, (ISum, Ite))
        if not sym:
            if isinstance(op, ast.Add): return a + b
            if isinstance(op, ast.Sub): return a - b
            if isinstance(op, ast.Mult): return a * b
            if isinstance(op, ast.Div):
                if b == 0:
                    if not self.symbolic:
                        return math.copysign(math.inf, a) if a != 0 else math.nan
                    raise ZeroDivisionError
                return a / b
            if isinstance(op, ast.Pow): return a ** b
            if isinstance(op, ast.Mod): return a % b
            raise UnsupportedConstruct(f'operator {op}')
        # indicator sums keep their structure under + const, + ISum, * const, / const
        if isinstance(op, (ast.Add, ast.Sub)) and (isinstance(a, ISum) or isinstance(b, ISum)):
            sgn = 1 if isinstance(op, ast.Add) else -1
            if isinstance(a, ISum) and _num(b) and _num(a.const):
                return ISum(a.const + sgn * b, a.items)
            if isinstance(a, ISum) and isinstance(b, ISum) and _num(a.const) and _num(b.const):
                return ISum(a.const + sgn * b.const, a.items + tuple((c, sgn * k) for c, k in b.items))
            if _num(a) and isinstance(b, ISum) and _num(b.const):
                return ISum(a + sgn * b.const, tuple((c, sgn * k) for c, k in b.items))
        if isinstance(op, (ast.Mult, ast.Div)) and isinstance(a, ISum) and _num(b) and _num(a.const) and b != 0:
            fb = Fraction(b) if float(b).is_integer() else None
            if fb is not None:
                if isinstance(op, ast.Mult):
                    return a.scaled(lambda x: x * fb)
                return a.scaled(lambda x: Fraction(x) / fb)
        if isinstance(op, ast.Add):
            # counting truth values (c += <comparison>): keep the indicator structure
            for u_, w_ in ((a, b), (b, a)):
                if is_z3(w_) and z3.is_bool(w_) and (_num(u_) or (isinstance(u_, ISum) and _num(u_.const))):
                    base_ = u_ if isinstance(u_, ISum) else ISum(u_)
                    return ISum(base_.const, base_.items + ((w_, 1),))
        ta, tb = Rnum(a), Rnum(b)
        if isinstance(op, ast.Add): return ta + tb
        if isinstance(op, ast.Sub): return ta - tb
        if isinstance(op, ast.Mult): return ta * tb
        if isinstance(op, ast.Div):
            if z3.is_rational_value(tb) and tb.numerator_as_long() == 0:
                # C double division by a literal zero (empty grid: nx or ny == 0) yields inf/nan
                # without raising; the value is never used because the loops have no iterations
                return self.fresh_real('undef')
            self.safety.append((guard, tb != 0, 'divisor != 0'))
            return ta / tb
        if isinstance(op, ast.Pow):
            if _num(b) and b == 2:
                return ta * ta
            raise UnsupportedConstruct('power other than 2')
        if isinstance(op, ast.Mod):
            if _num(b) and b == 2 and isinstance(a, ISum) and _num(a.const) and \
                    all(float(k).is_integer() for _, k in a.items) and float(a.const).is_integer():
                par = z3.BoolVal(int(a.const) % 2 == 1)
                for c, k in a.items:
                    if int(k) % 2:
                        par = z3.Xor(par, c)
                return z3.If(par, z3.RealVal(1), z3.RealVal(0))
            raise UnsupportedConstruct('% on a symbolic term')
        raise UnsupportedConstruct(f'operator {op}')

    def ev(self, e, env, guard):
        if isinstance(e, ast.Constant):
            return e.value
        if isinstance(e, ast.Name):
            if e.id in env:
                return env[e.id]
            if e.id in self.globals:
                return self.globals[e.id]
            if e.id in ('True', 'False'):
                return e.id == 'True'
            raise UnsupportedConstruct(f'name {e.id}')
        if isinstance(e, ast.BinOp):
            return self.binop(e.op, self.ev(e.left, env, guard), self.ev(e.right, env, guard), guard)
        if isinstance(e, ast.UnaryOp):
            v = self.ev(e.operand, env, guard)
            if isinstance(v, (ISum, Ite)):
                v = v.term()
            if isinstance(e.op, ast.USub):
                return -v
            if isinstance(e.op, ast.UAdd):
                return v
            if isinstance(e.op, ast.Not):
                if is_z3(v):
                    return z3.Not(v if z3.is_bool(v) else v != 0)
                return not v
            raise UnsupportedConstruct('unary op')
        if isinstance(e, ast.BoolOp):
            # C/Python short-circuit: later operands are evaluated under the earlier ones
            vals = []
            g = guard
            for sub in e.values:
                v = self.ev(sub, env, g)
                if isinstance(v, (ISum, Ite)):
                    v = v.term()
                if is_z3(v) and not z3.is_bool(v):
                    v = v != 0
                vals.append(v)
                if not is_z3(v):
                    if isinstance(e.op, ast.And) and not v:
                        return False
                    if isinstance(e.op, ast.Or) and v:
                        return True
                else:
                    g = z3.And(g, v if isinstance(e.op, ast.And) else z3.Not(v))
            zs = [v for v in vals if is_z3(v)]
            if not zs:
                return isinstance(e.op, ast.And)
            return z3.And(*zs) if isinstance(e.op, ast.And) else z3.Or(*zs)
        if isinstance(e, ast.Compare):
            l = self.ev(e.left, env, guard)
            out = []
            for op, r in zip(e.ops, e.comparators):
                r = self.ev(r, env, guard)
                sym = is_z3(l) or is_z3(r) or isinstance(l, (ISum, Ite)) or isinstance(r, (ISum, Ite))
                if sym:
                    a, b = R(l), R(r)
                    if z3.is_bool(a) != z3.is_bool(b):
                        a, b = Rnum(l), Rnum(r)
                else:
                    a, b = l, r
                if isinstance(op, ast.Lt): out.append(a < b)
                elif isinstance(op, ast.LtE): out.append(a <= b)
                elif isinstance(op, ast.Gt): out.append(a > b)
                elif isinstance(op, ast.GtE): out.append(a >= b)
                elif isinstance(op, ast.Eq): out.append(a == b)
                elif isinstance(op, ast.NotEq):
                    out.append(z3.Xor(a, b) if (sym and z3.is_bool(a)) else a != b)
                else:
                    raise UnsupportedConstruct('comparison operator')
                l = r
            if len(out) == 1:
                return out[0]
            return z3.And(*[R(o) for o in out]) if any(is_z3(o) for o in out) else all(out)
        if isinstance(e, ast.Call):
            if isinstance(e.func, ast.Attribute):
                base = e.func.value
                if isinstance(base, ast.Name) and base.id == 'np' and e.func.attr == 'zeros':
                    shp = self.ev(e.args[0], env, guard)
                    if isinstance(shp, (tuple, list)):
                        ny, nx = shp
                        return [[0.0] * nx for _ in range(ny)]
                    return [0] * shp
                if e.func.attr in ('min', 'max') and not e.args:
                    arr = self.ev(base, env, guard)
                    val = arr[0]
                    for x in arr[1:]:
                        val = self.builtin(e.func.attr, [val, x], guard)
                    return val
                raise UnsupportedConstruct(f'call {ast.unparse(e)[:60]}')
            if not isinstance(e.func, ast.Name):
                raise UnsupportedConstruct('indirect call')
            if e.keywords:
                raise UnsupportedConstruct('keyword arguments')
            return self.call(e.func.id, [self.ev(a, env, guard) for a in e.args], guard)
        if isinstance(e, (ast.Tuple, ast.List)):
            return tuple(self.ev(x, env, guard) for x in e.elts)
        if isinstance(e, ast.Subscript):
            arr = self.ev(e.value, env, guard)
            idx = self.ev(e.slice, env, guard)
            if isinstance(idx, tuple):
                return arr[idx[0]][idx[1]]
            return arr[idx]
        if isinstance(e, ast.Attribute):
            if isinstance(e.value, ast.Name) and e.value.id == 'np' and e.attr == 'pi':
                from .symx import PI
                return PI if self.symbolic else math.pi
            if e.attr == 'shape':
                arr = self.ev(e.value, env, guard)
                if isinstance(arr, list):
                    if arr and isinstance(arr[0], list):
                        return (len(arr), len(arr[0]))
                    return (len(arr),)
            obj = self.ev(e.value, env, guard)
            if isinstance(obj, Struct) and e.attr in obj._f:
                return obj._f[e.attr]
            raise UnsupportedConstruct(f'attribute {ast.unparse(e)}')
        raise UnsupportedConstruct(f'expression {type(e).__name__}')


class KernelRaise(Exception):
    pass


# --------------------------------------------------------------------------
# translation validation: lowered source executed concretely == compiled extension
# --------------------------------------------------------------------------
def _vectors(seed, n):
    import random
    rnd = random.Random(seed)
    out = []
    for _ in range(n):
        out.append(dict(
            cx=rnd.uniform(-3, 3), cy=rnd.uniform(-3, 3), r=rnd.uniform(0.2, 3.5),
            rx=rnd.uniform(0.2, 3.5), ry=rnd.uniform(0.2, 3.5), theta=rnd.uniform(-4, 4),
            nx=rnd.randint(1, 5), ny=rnd.randint(1, 5), sub=rnd.randint(1, 4),
            x0=rnd.uniform(-5, 0), y0=rnd.uniform(-5, 0), w=rnd.uniform(0.5, 8), h=rnd.uniform(0.5, 8),
            nv=rnd.randint(3, 6), vs=[(rnd.uniform(-4, 4), rnd.uniform(-4, 4)) for _ in range(6)],
        ))
    return out


def translation_validation(seed=0, n=60, kernels=('circular', 'elliptical', 'rectangular', 'polygonal', 'pnpoly'),
                           exact=True):
    """Run the lowered kernels concretely and compare with the compiled extension.
    Returns dict(programs, compared, max_abs_diff, disagreements:[...])."""
    import importlib
    import numpy as np
    res = {'programs': 0, 'compared': 0, 'max_abs_diff': 0.0, 'disagreements': [], 'samples': []}
    vecs = _vectors(seed, n)
    # the repository's own test parameter sets (regions/_geometry/tests)
    grid_tests = [dict(x0=-1.0, y0=-1.0, w=2.0, h=2.0, nx=g, ny=g, r=r_, sub=s)
                  for g in (1, 4) for r_ in (0.2, 0.4, 0.8) for s in (1, 5)]

    def cmp(name, a, b, inp):
        a = np.asarray(a, dtype=float)
        b = np.asarray(b, dtype=float)
        res['compared'] += 1
        d = float(np.max(np.abs(a - b))) if a.size else 0.0
        if not (d <= 1e-12):   # also catches NaN
            if not (np.isnan(a) == np.isnan(b)).all() or not np.allclose(a, b, atol=1e-12, equal_nan=True):
                res['disagreements'].append({'kernel': name, 'input': inp, 'diff': d})
        else:
            res['max_abs_diff'] = max(res['max_abs_diff'], d)
        if len(res['samples']) < 3:
            res['samples'].append({'kernel': name, 'input': inp, 'lowered': a.tolist(), 'compiled': b.tolist()})

    if 'circular' in kernels:
        so = importlib.import_module('regions._geometry.circular_overlap')
        I = Interp('circular_overlap', symbolic=False)
        res['programs'] += 1
        for v in vecs + grid_tests:
            for ue in ((0, 1) if exact else (0,)):
                args = (v['x0'], v['x0'] + v['w'], v['y0'], v['y0'] + v['h'], v['nx'], v['ny'], v['r'], ue, v['sub'])
                cmp('circular_overlap_grid', I.call('circular_overlap_grid', list(args)),
                    so.circular_overlap_grid(*args), list(args))
    if 'elliptical' in kernels:
        so = importlib.import_module('regions._geometry.elliptical_overlap')
        I = Interp('elliptical_overlap', symbolic=False)
        res['programs'] += 1
        for v in vecs:
            for ue in ((0, 1) if exact else (0,)):
                args = (v['x0'], v['x0'] + v['w'], v['y0'], v['y0'] + v['h'], v['nx'], v['ny'], v['rx'], v['ry'],
                        v['theta'], ue, v['sub'])
                cmp('elliptical_overlap_grid', I.call('elliptical_overlap_grid', list(args)),
                    so.elliptical_overlap_grid(*args), list(args))
    if 'rectangular' in kernels:
        so = importlib.import_module('regions._geometry.rectangular_overlap')
        I = Interp('rectangular_overlap', symbolic=False)
        res['programs'] += 1
        for v in vecs:
            args = (v['x0'], v['x0'] + v['w'], v['y0'], v['y0'] + v['h'], v['nx'], v['ny'], v['rx'], v['ry'],
                    v['theta'], 0, v['sub'])
            cmp('rectangular_overlap_grid', I.call('rectangular_overlap_grid', list(args)),
                so.rectangular_overlap_grid(*args), list(args))
    if 'polygonal' in kernels:
        so = importlib.import_module('regions._geometry.polygonal_overlap')
        I = Interp('polygonal_overlap', symbolic=False)
        res['programs'] += 1
        for v in vecs:
            vx = [p[0] for p in v['vs'][:v['nv']]]
            vy = [p[1] for p in v['vs'][:v['nv']]]
            args = (v['x0'], v['x0'] + v['w'], v['y0'], v['y0'] + v['h'], v['nx'], v['ny'])
            a = I.call('polygonal_overlap_grid', list(args) + [vx, vy, 0, v['sub']])
            b = so.polygonal_overlap_grid(*args, np.array(vx), np.array(vy), 0, v['sub'])
            cmp('polygonal_overlap_grid', a, b, list(args) + [vx, vy, 0, v['sub']])
    if 'pnpoly' in kernels:
        so = importlib.import_module('regions._geometry.pnpoly')
        I = Interp('pnpoly', symbolic=False)
        res['programs'] += 1
        for v in vecs:
            vx = [p[0] for p in v['vs'][:v['nv']]]
            vy = [p[1] for p in v['vs'][:v['nv']]]
            xs = [v['cx'], v['x0'], 0.0]
            ys = [v['cy'], v['y0'], 0.0]
            a = I.call('points_in_polygon', [xs, ys, vx, vy])
            b = so.points_in_polygon(np.array(xs), np.array(ys), np.array(vx), np.array(vy))
            cmp('points_in_polygon', a, b, [xs, ys, vx, vy])
    return res
