"""Evidence files, verdict lines, exit codes (DESIGN section 3.5)."""
import json
import os
import subprocess

HERE = os.path.dirname(os.path.dirname(os.path.abspath(__file__)))


def _repo_rev():
    repo = os.environ.get('VERIF_REPO', '/repo')
    try:
        rev = subprocess.run(['git', '-C', repo, 'rev-parse', '--short', 'HEAD'], capture_output=True,
                             text=True, timeout=10).stdout.strip()
        dirty = subprocess.run(['git', '-C', repo, 'status', '--porcelain'], capture_output=True,
                               text=True, timeout=10).stdout.strip()
        return rev + ('+dirty' if dirty else '')
    except Exception:  # noqa
        return 'unknown'


def report(prop, tier, seed, mod, results, wall, write=True):
    meta = getattr(mod, 'META', {})
    tot = {'unsat': 0, 'sat': 0, 'unknown': 0, 'trivial_closed_by_simplifier': 0, 'solver_time_s': 0.0}
    cross = {'agree': 0, 'unknown': 0, 'disagree': 0, 'error': 0}
    paths = obligations = nontrivial = vac = feas = safety = 0
    violations, known, inconclusive, samples, notes = [], [], [], [], []
    percase = []
    for r in results:
        st = r.get('stats', {})
        for k in tot:
            tot[k] += st.get(k, 0)
        for k, v_ in (st.get('cross') or {}).items():
            cross[k] = cross.get(k, 0) + v_
        paths += r.get('paths', 0)
        obligations += r.get('obligations', 0)
        nontrivial += r.get('symbolic_goals', 0) if meta.get('count') == 'symbolic' else r.get('nontrivial', 0)
        vac += r.get('vacuity', 0)
        feas += r.get('feas_queries', 0)
        safety += r.get('safety', 0)
        violations += [(r['name'], v) for v in r['violations']]
        known += [(r['name'], v) for v in r['known']]
        inconclusive += [(r['name'], v) for v in r['inconclusive']]
        for s in r.get('samples', []):
            if len(samples) < 6:
                samples.append(s)
        for n in r.get('notes', []):
            if n not in notes:
                notes.append(n)
        percase.append({'case': r['name'], 'paths': r.get('paths', 0), 'obligations': r.get('obligations', 0),
                        'wall_s': r.get('wall_s'), 'queries': {k: st.get(k, 0) for k in ('unsat', 'sat', 'unknown')},
                        **({'extra': r['extra']} if 'extra' in r else {})})
    tot['solver_time_s'] = round(tot['solver_time_s'], 3)
    queries = tot['unsat'] + tot['sat'] + tot['unknown']

    # ---- verdict lines
    seen_known = set()
    for case, k in known:
        e = k.get('known', {})
        line = f"KNOWN-FINDING: property={prop} {e.get('what', e.get('key'))}"
        if line not in seen_known:
            seen_known.add(line)
            print(line)
    for n_, (case, v) in enumerate(violations):
        if n_ >= 25:
            print(f'  ... {len(violations) - 25} more violations (see evidence / replays)')
            break
        print(f"VIOLATION property={prop} replay={v.get('replay')}")
        print(f"  case={case} obligation={v.get('obligation')} inputs={json.dumps(v.get('inputs'), default=str)[:400]}"
              f" failures={v.get('replayed_failures')} exc={v.get('exception')}")
    seen_inc = set()
    for case, msg in inconclusive:
        sig = (case, str(msg)[:60])
        if sig in seen_inc:
            continue
        seen_inc.add(sig)
        if len(seen_inc) <= 40:
            print(f'INCONCLUSIVE property={prop} case={case}: {str(msg)[:700]}')
    if len(seen_inc) > 40:
        print(f'INCONCLUSIVE property={prop}: ... {len(seen_inc) - 40} more distinct inconclusive results')

    if violations:
        code = 1
    elif inconclusive:
        code = 3
    else:
        code = 0

    if write:
        bounds = meta.get('bounds', {}).get(tier, meta.get('bounds', {}))
        if not samples:
            samples = [{'case': r['name'], 'paths': r.get('paths'), 'obligations': r.get('obligations')}
                       for r in results[:3]]
        ev = {
            'property_id': prop,
            'tier': tier,
            'seed': seed,
            'level': meta.get('level', 'model_checking'),
            'coverage': {
                'evaluations': max(queries + feas, 1),
                'distinct_nontrivial': nontrivial,
                'rule': meta.get('rule', (
                    'evaluations = SMT queries issued (validity + branch-feasibility); an obligation is one '
                    '(path, assertion) pair of a symbolic run of the real code; distinct_nontrivial counts '
                    'obligations with distinct (name, simplified goal) that the simplifier did not close '
                    'and that therefore needed a solver verdict')),
                'samples': samples,
                'technique': meta.get('technique', 'bounded symbolic execution of the real code + SMT (z3)'),
                'functions_encoded': meta.get('functions_encoded', []),
                'bounds': bounds,
                'outside_claim': meta.get('outside_claim', []),
                'stubs': meta.get('stubs', []),
                'cases': len(results),
                'paths': paths,
                'obligations': obligations,
                'safety_obligations': safety,
                'queries': {'unsat': tot['unsat'], 'sat': tot['sat'], 'unknown': tot['unknown'],
                            'branch_feasibility': feas,
                            'closed_by_simplifier': tot['trivial_closed_by_simplifier']},
                'solver_time_s': tot['solver_time_s'],
                'cross_solver_cvc5': {**cross, 'what': 'z3 unsat verdicts re-decided by cvc5 (sampled per case; unknown = cvc5 timeout at 4 s)'},
                'vacuity_witnesses': vac,
                'known_findings_hit': sorted({k.get('known', {}).get('key', '?') for _, k in known}),
                'inconclusive': [f'{c}: {str(m)[:300]}' for c, m in inconclusive][:20],
                'per_case': percase,
                'notes': notes[:20],
                'repo_rev': _repo_rev(),
                'exhaustive': False,
            },
            'assumptions': meta.get('assumptions', []),
            'wall_s': round(wall, 2),
            'violations': len(violations),
        }
        os.makedirs(os.path.join(HERE, 'evidence'), exist_ok=True)
        with open(os.path.join(HERE, 'evidence', f'{prop}.json'), 'w') as f:
            json.dump(ev, f, indent=1, default=str)
    print(f'{prop} tier={tier}: cases={len(results)} paths={paths} obligations={obligations} '
          f'queries={queries} (unsat={tot["unsat"]} sat={tot["sat"]} unknown={tot["unknown"]}) '
          f'solver={tot["solver_time_s"]}s wall={round(wall, 1)}s known={len(seen_known)} '
          f'violations={len(violations)} inconclusive={len(inconclusive)}'
          + (f' cvc5[agree={cross["agree"]} unknown={cross["unknown"]} disagree={cross["disagree"]} error={cross["error"]}]' if sum(cross.values()) else '')
          + f' -> exit {code}')
    return code
