"""Numeric reference areas, used only when a counterexample is replayed concretely (the symbolic side
uses uninterpreted functions for the same quantities).  Written from elementary geometry, not from the kernels."""
import math


def segment(x1, y1, x2, y2, r):
    """area between the chord (x1,y1)-(x2,y2) of the circle of radius r and the minor arc it subtends"""
    a = math.hypot(x2 - x1, y2 - y1)
    q = min(1.0, max(0.0, 0.5 * a / r))
    th = 2.0 * math.asin(q)
    return 0.5 * r * r * (th - math.sin(th))


def _H(x, r):
    x = min(r, max(-r, x))
    return 0.5 * (x * math.sqrt(max(r * r - x * x, 0.0)) + r * r * math.asin(x / r))


def disc_rect(x0, y0, x1, y1, r):
    """area of {x^2+y^2<=r^2} intersected with [x0,x1]x[y0,y1] by integrating the chord length in y"""
    if x1 <= x0 or y1 <= y0:
        return 0.0
    a, b = max(x0, -r), min(x1, r)
    if b <= a:
        return 0.0
    cuts = {a, b}
    for y in (y0, y1):
        if abs(y) < r:
            s = math.sqrt(r * r - y * y)
            for c in (-s, s):
                if a < c < b:
                    cuts.add(c)
    cuts = sorted(cuts)
    tot = 0.0
    for u, v in zip(cuts, cuts[1:]):
        xm = 0.5 * (u + v)
        h = math.sqrt(max(r * r - xm * xm, 0.0))
        lo, hi = max(y0, -h), min(y1, h)
        if hi <= lo:
            continue
        # integrand = min(y1, h(x)) - max(y0, -h(x)) with the active pieces fixed on (u, v)
        t = 0.0
        t += (y1 * (v - u)) if y1 <= h else (_H(v, r) - _H(u, r))
        t -= (y0 * (v - u)) if y0 >= -h else -(_H(v, r) - _H(u, r))
        tot += t
    return tot


def _edge(ax, ay, bx, by):
    """signed area of the unit disc intersected with the triangle (0, a, b)"""
    dx, dy = bx - ax, by - ay
    A = dx * dx + dy * dy
    if A == 0:
        return 0.0
    B = 2 * (ax * dx + ay * dy)
    C = ax * ax + ay * ay - 1.0
    disc = B * B - 4 * A * C

    def sector(px, py, qx, qy):
        return 0.5 * math.atan2(px * qy - py * qx, px * qx + py * qy)

    def tri(px, py, qx, qy):
        return 0.5 * (px * qy - py * qx)
    if disc <= 0:
        return sector(ax, ay, bx, by)
    sq = math.sqrt(disc)
    t1, t2 = (-B - sq) / (2 * A), (-B + sq) / (2 * A)
    if t2 <= 0 or t1 >= 1:
        return sector(ax, ay, bx, by)
    pts = [(ax, ay, 'a')]
    ts = []
    if 0 < t1 < 1:
        ts.append(t1)
    if 0 < t2 < 1:
        ts.append(t2)
    for t in ts:
        pts.append((ax + t * dx, ay + t * dy, 'c'))
    pts.append((bx, by, 'b'))
    tot = 0.0
    for (px, py, _), (qx, qy, _) in zip(pts, pts[1:]):
        mx, my = 0.5 * (px + qx), 0.5 * (py + qy)
        if mx * mx + my * my < 1.0:
            tot += tri(px, py, qx, qy)
        else:
            tot += sector(px, py, qx, qy)
    return tot


def disc_triangle(x1, y1, x2, y2, x3, y3):
    """area of the unit disc intersected with a triangle"""
    return abs(_edge(x1, y1, x2, y2) + _edge(x2, y2, x3, y3) + _edge(x3, y3, x1, y1))
