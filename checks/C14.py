"""C14 file writing never clobbers or half-writes; format identification."""
import functools
import warnings

import numpy as np
import z3
import astropy.units as u

from vf import chk, symx, kernels
from vf.chk import And, Or, Not, Implies, Iff, If


class FakeOSPath:
    """destination state: `occupied` (a directory entry exists: file, symlink or dangling symlink)
    and `dangling` (the entry is a symlink whose target does not exist)"""
    def __init__(self, exists, events, dangling=False):
        self._exists, self._events, self._dangling = exists, events, dangling

    def lexists(self, p):
        self._events.append(('lexists', p))
        if getattr(self, '_real', None) is not None and p != self._real:
            return False          # path-aware mode: only the path `_real` exists
        return self._exists

    def getsize(self, p):
        self._events.append(('getsize', p))
        if not bool(self._exists):
            raise FileNotFoundError(p)
        return 0 if getattr(self, '_empty', False) else 5700

    def exists(self, p):
        self._events.append(('exists', p))
        if getattr(self, '_real', None) is not None and p != self._real:
            return False
        return self._exists & ~self._dangling if isinstance(self._exists, symx.SymBool) or isinstance(self._dangling, symx.SymBool) \
            else (self._exists and not self._dangling)

    isfile = exists

    def __getattr__(self, n):
        import os
        return getattr(os.path, n)


class FakeOS:
    def __init__(self, exists, events, dangling=False, empty=False):
        self.path = FakeOSPath(exists, events, dangling)
        self.path._empty = empty
        self._events = events
        self._exists, self._empty = exists, empty

    def _st(self, p):
        import types
        if not bool(self._exists):
            raise FileNotFoundError(p)
        return types.SimpleNamespace(st_size=0 if self._empty else 5700, st_mode=0o100644)

    def lstat(self, p, *a, **k):
        self._events.append(('lstat', p))
        return self._st(p)

    stat = lstat

    def remove(self, p):
        self._events.append(('remove', p))

    unlink = remove

    def rename(self, a, b):
        self._events.append(('rename', a, b))

    replace = rename

    def open(self, path, flags, mode=0o777, **k):
        """low-level open: recorded as the builtin open(path, 'w') it is equivalent to when it creates, truncates and writes;
        any other flag combination is recorded with its flags (and then does not satisfy "opened for writing, truncating")"""
        import os
        need = os.O_WRONLY | os.O_CREAT | os.O_TRUNC
        if flags & need == need and not flags & os.O_APPEND:
            self._pending = ('open', path, 'w')
        else:
            self._pending = ('open', path, f'os.open flags={flags:#o}')
        return ('fake-fd', path)

    def fdopen(self, fd, mode='r', *a, **k):
        ev = self._pending
        f = FakeFile.__new__(FakeFile)
        f._events = self._events
        self._events.append(ev if mode.startswith('w') else ('open', fd[1], mode))
        return f

    def close(self, fd):
        pass

    def __getattr__(self, n):
        import os
        return getattr(os, n)


class FakeFile:
    def __init__(self, events, name, mode):
        self._events = events
        events.append(('open', name, mode))

    def write(self, s):
        self._events.append(('write', s))

    def __enter__(self):
        return self

    def __exit__(self, *a):
        self._events.append(('close',))
        return False


class FakeHDU:
    def __init__(self, events, exists, data=None, header=None):
        self._events, self._exists = events, exists
        if header is not None and not isinstance(header, dict) and not hasattr(header, 'keys'):
            raise ValueError('bad header')
        events.append(('hdu', None))

    def writeto(self, filename, overwrite=False, **kw):
        self._events.append(('writeto', filename, overwrite))
        ex = self._exists
        if bool(ex) and not overwrite:
            raise OSError(f'File {filename!r} already exists.')


def h_write_tilde(fmt, api, m):
    """a destination written with a leading '~': whatever the writer decides '~' means, the path it tests for existence and
    the path it opens must be the same file - an existing file at the expanded path is never rewritten without overwrite=True.
    (symbolic mode: path-aware event-recording filesystem in which only the expanded path exists; replay: a real temporary
    HOME).  Nothing is required about whether a write to a '~' path succeeds."""
    import importlib
    import os
    import shutil
    import tempfile
    overwrite = m.boolean('overwrite')
    regs = _pool(None, 1, 0)
    kw = {'crtf': {'coordsys': 'image', 'radunit': 'pix'}}.get(fmt, {})
    ow = bool(overwrite)
    ext = {'ds9': 'reg', 'crtf': 'crtf', 'fits': 'fits'}[fmt]
    target = '~/dest.' + ext

    def call():
        with warnings.catch_warnings():
            warnings.simplefilter('ignore')
            try:
                if api == 'Regions':
                    _R(regs).write(target, format=fmt, overwrite=ow, **kw)
                else:
                    regs[0].write(target, format=fmt, overwrite=ow, **kw)
                return None
            except Exception as ex:  # noqa
                return ex

    if not m.sym or fmt == 'fits':
        # FITS delegates the existence test and the expansion to astropy.io.fits: executed against a real directory
        d = tempfile.mkdtemp(prefix='vf-c14t-')
        home = os.environ.get('HOME')
        cwd = os.getcwd()
        try:
            os.environ['HOME'] = d
            os.chdir(d)
            real = os.path.join(d, 'dest.' + ext)
            sentinel = b'PRECIOUS USER DATA\n' * 300
            with open(real, 'wb') as f:
                f.write(sentinel)
            raised = call()
            now = open(real, 'rb').read() if os.path.lexists(real) else None
            if not ow:
                m.require("'~' destination: an existing file at the expanded path is left byte-identical without overwrite=True", now == sentinel)
                m.require("'~' destination: a write that did not raise did not touch the existing expanded file either", raised is not None or now == sentinel)
        finally:
            os.chdir(cwd)
            if home is None:
                os.environ.pop('HOME', None)
            else:
                os.environ['HOME'] = home
            shutil.rmtree(d, ignore_errors=True)
        return
    events = []
    mod = importlib.import_module(f'regions.io.{fmt}.write')
    fake = FakeOS(True, events)
    expanded = os.path.expanduser(target)
    fake.path._real = expanded
    m.shim(mod, 'os', fake)
    m.shim(mod, 'open', lambda name, mode='r', *a, **k: FakeFile(events, name, mode))
    raised = call()
    hits = [e for e in events if e[0] in ('open', 'remove', 'rename') and expanded in e[1:]]
    if not ow:
        m.require("'~' destination: the existing file at the expanded path is not opened for writing, removed or replaced "
                  'without overwrite=True', not hits)


def _pool(fail_kind, n, pos):
    """list of n regions with a failing / unserialisable member at index pos (or none)"""
    import regions as R
    from regions import PixCoord
    good = [R.CirclePixelRegion(PixCoord(1.0 + k, 2.0), 3.0) for k in range(n)]
    if fail_kind is None:
        return good
    bad = {'compound': lambda: good[0] | R.CirclePixelRegion(PixCoord(9.0, 9.0), 1.0),
           'not-a-region': lambda: 'oops',
           'sky': lambda: R.CircleSkyRegion(_sky(), 1 * u.arcsec),
           'unsupported-frame': lambda: R.CircleSkyRegion(_sky().transform_to('supergalactic'), 1 * u.arcsec)}[fail_kind]()
    out = list(good)
    out[pos] = bad
    return out


def _sky():
    from astropy.coordinates import SkyCoord
    return SkyCoord(10.0, 20.0, unit='deg')


def _serializes(fmt, regs, kw):
    """does serialisation of this list succeed on the real library? returns (ok, text-or-exception)"""
    from regions import Regions
    with warnings.catch_warnings():
        warnings.simplefilter('ignore')
        try:
            return True, Regions.__new__(Regions).__class__.serialize(_R(regs), format=fmt, **kw)
        except Exception as ex:  # noqa
            return False, ex


def _R(regs):
    from regions import Regions
    r = object.__new__(Regions)
    r.regions = regs
    return r


def _expect(fmt, regs, kw, api):
    use = regs if api == 'Regions' else regs[:1]
    if api == 'Region' and not hasattr(use[0], 'write'):
        return None, None
    ok, ser = _serializes(fmt, use, {k: v for k, v in kw.items() if k != 'header'})
    will_fail = (not ok) or (fmt == 'fits' and 'header' in kw)
    return will_fail, (ser if ok else None)


def h_write(fmt, fail_kind, n, pos, api, bad_option, m):
    """one write with a symbolic 'destination exists' bit and a symbolic overwrite flag
    (symbolic mode: event-recording filesystem; replay: a real temporary directory)"""
    import importlib
    import os
    import shutil
    import tempfile
    exists = m.boolean('exists')
    dangling = m.boolean('dangling')
    overwrite = m.boolean('overwrite')
    empty = bool(m.boolean('empty')) if (fail_kind is None and not bad_option and fmt != 'fits') else False      # the existing file has zero length
    regs = _pool(fail_kind, n, pos)
    kw = {'crtf': {'coordsys': 'image', 'radunit': 'pix'}}.get(fmt, {})      # pixel regions are only expressible in CRTF image coordinates
    if bad_option:
        kw = {**kw, **{'ds9': {'precision': 'many'}, 'crtf': {'fmt': 'zz'}, 'fits': {'header': 5}}[fmt]}
    will_fail, expected_text = _expect(fmt, regs, kw, api)
    if will_fail is None:
        return
    ow = bool(overwrite)        # fork: the flag handed to the API is a concrete bool on each path
    ext = {'ds9': 'reg', 'crtf': 'crtf', 'fits': 'fits'}[fmt]

    def call(target):
        with warnings.catch_warnings():
            warnings.simplefilter('ignore')
            try:
                if api == 'Regions':
                    _R(regs).write(target, format=fmt, overwrite=ow, **kw)
                else:
                    regs[0].write(target, format=fmt, overwrite=ow, **kw)
                return None
            except Exception as ex:  # noqa
                return ex

    if not m.sym:
        d = tempfile.mkdtemp(prefix='vf-c14-')
        try:
            target = os.path.join(d, 'dest.' + ext)
            sentinel = b'PRECIOUS USER DATA\n' * 300          # longer than any output: a write that does not truncate shows
            is_dangling = bool(exists and dangling) and fmt != 'fits'
            if is_dangling:
                os.symlink(os.path.join(d, 'missing-target'), target)
                sentinel = ('link', os.readlink(target))
            elif exists:
                if empty:
                    sentinel = b''
                with open(target, 'wb') as f:
                    f.write(sentinel)
            raised = call(target)
            if is_dangling:
                now = ('link', os.readlink(target)) if os.path.islink(target) and not os.path.exists(target) else 'changed'
            else:
                now = open(target, 'rb').read() if os.path.lexists(target) else None
            if exists and not ow:
                m.require('existing destination without overwrite raises', raised is not None)
                if not will_fail:
                    m.require('existing destination without overwrite raises OSError', isinstance(raised, OSError))
                m.require('existing destination without overwrite is left byte-identical', now == sentinel)
            elif will_fail:
                m.require('a write that cannot serialise raises', raised is not None)
                m.require('a failed write leaves the destination as it was', now == (sentinel if exists else None))
            else:
                m.require('a valid write succeeds', raised is None and now is not None and (now != sentinel or empty))
                if fmt != 'fits':
                    m.require('the written text is the serialised text', now.decode() == expected_text)
        finally:
            shutil.rmtree(d, ignore_errors=True)
        return

    events = []
    mod = importlib.import_module(f'regions.io.{fmt}.write')
    if fmt in ('ds9', 'crtf'):
        m.shim(mod, 'os', FakeOS(exists, events, dangling, empty))
        m.shim(mod, 'open', lambda name, mode='r', *a, **k: FakeFile(events, name, mode))
    else:
        class _F:
            BinTableHDU = staticmethod(lambda data=None, header=None, **k: FakeHDU(events, exists, data, header))

            def __getattr__(self, n_):
                from astropy.io import fits
                return getattr(fits, n_)
        m.shim(mod, 'fits', _F())
        m.shim(mod, 'os', FakeOS(exists, events))
    target = 'dest.' + ext
    raised = call(target)
    touching = [e for e in events if e[0] in ('open', 'writeto', 'remove', 'rename')]
    ex_now = bool(exists)       # fork
    if ex_now and not ow:
        m.require('existing destination without overwrite raises', raised is not None)
        if not will_fail:
            m.require('existing destination without overwrite raises OSError', isinstance(raised, OSError))
        m.require('existing destination without overwrite: nothing is opened for writing, removed or replaced',
                  not [e for e in touching if e[0] != 'writeto'] and not any(e[0] == 'writeto' and e[2] for e in touching))
    elif will_fail:
        m.require('a write that cannot serialise raises', raised is not None)
        m.require('a failed write never opens, removes or replaces the destination', not touching)
    else:
        m.require('a valid write succeeds', raised is None)
        if fmt in ('ds9', 'crtf'):
            m.require('exactly one file is opened, for writing, at the destination', touching == [('open', target, 'w')])
            text = ''.join(e[1] for e in events if e[0] == 'write')
            m.require('the written text is the serialised text', text == expected_text)
            order = [e[0] for e in events if e[0] in ('lexists', 'exists', 'open')]
            m.require('the existence test precedes the open', len(order) >= 2 and order[-1] == 'open' and order[0] in ('lexists', 'exists'))
        else:
            m.require("the table is written once with the caller's overwrite flag", touching == [('writeto', target, ow)])


def h_identify(methodname, m):
    """format identification on a symbolic path string"""
    import importlib
    from regions import Regions
    from regions.core.core import Region
    from regions.core.registry import RegionsRegistry, IORegistryError
    path = m.string('path')
    low = path.lower()
    ids = {}
    for fmt, fn in (('ds9', 'is_ds9'), ('crtf', 'is_crtf'), ('fits', 'is_fits')):
        mod = importlib.import_module(f'regions.io.{fmt}.connect')

        class _NoFile:
            def __call__(self, *a, **k):
                raise OSError('no such file (stub: content sniffing is outside the symbolic claim)')
        if methodname == 'read':
            if hasattr(mod, 'get_readable_fileobj'):
                m.shim(mod, 'get_readable_fileobj', _NoFile())
            else:
                class _Fits:
                    @staticmethod
                    def open(*a, **k):
                        raise OSError('not a FITS file (stub)')
                m.shim(mod, 'fits', _Fits())
        try:
            ids[fmt] = getattr(mod, fn)(methodname, path)
        except OSError:
            ids[fmt] = False
    doc = {'ds9': {'write': ('.ds9', '.reg'), 'read': ('.ds9', '.reg', '.ds9.gz', '.reg.gz')},
           'crtf': {'write': ('.crtf',), 'read': ('.crtf', '.crtf.gz')},
           'fits': {'write': ('.fits', '.fit', '.fts'), 'read': ('.fits', '.fit', '.fts', '.fits.gz', '.fit.gz', '.fts.gz')}}
    for fmt in ids:
        exp = low.endswith(doc[fmt][methodname])
        m.require(f'{fmt} {methodname}-identifier accepts exactly the documented suffixes (case-insensitively)',
                  Iff(ids[fmt], exp))
    fl = list(ids)
    for i in range(3):
        for j in range(i + 1, 3):
            m.require(f'{fl[i]} and {fl[j]} never both claim the same path for {methodname}', Not(And(ids[fl[i]], ids[fl[j]])))
    if methodname == 'write':
        rids = {}
        for fmt, fn in (('ds9', 'is_ds9'), ('crtf', 'is_crtf'), ('fits', 'is_fits')):
            mod = importlib.import_module(f'regions.io.{fmt}.connect')
            exp_r = low.endswith(doc[fmt]['read'])
            m.require(f'{fmt}: a path accepted for writing is accepted for reading', Implies(ids[fmt], exp_r))
    for other in ('serialize', 'parse', 'bogus', ''):
        for fmt, fn in (('ds9', 'is_ds9'), ('crtf', 'is_crtf'), ('fits', 'is_fits')):
            mod = importlib.import_module(f'regions.io.{fmt}.connect')
            m.require(f'{fmt} identifier rejects method {other!r}', getattr(mod, fn)(other, 'x.reg') is False)
    # registry dispatch: the format chosen is the (unique) one whose identifier accepts
    for cls_ in (Regions, Region):
        try:
            got = RegionsRegistry.identify_format(path, cls_, methodname)
        except IORegistryError:
            got = None
        except OSError:
            got = 'oserror'
        for fmt in ids:
            m.require(f'{cls_.__name__}: registry picks {fmt} exactly when its identifier accepts',
                      Iff(got == fmt, ids[fmt]) if got != 'oserror' else True)


def h_content_history(m):
    """EXECUTED on a real temporary directory (no symbolic input; supplementary to the solver-decided cases): a successful write
    followed by a read with the format inferred from the content signature of a renamed / gzip-compressed copy returns the regions
    of the serialised text -- also when the same path later holds a file of another format"""
    import gzip
    import os
    import shutil
    import tempfile
    from regions import Regions, CirclePixelRegion, EllipsePixelRegion, PixCoord
    regs = {'ds9': Regions([CirclePixelRegion(PixCoord(1.0, 2.0), 3.0)]),
            'crtf': Regions([CirclePixelRegion(PixCoord(4.0, 5.0), 6.0), CirclePixelRegion(PixCoord(7.0, 8.0), 9.0)]),
            'fits': Regions([EllipsePixelRegion(PixCoord(1.5, 2.5), 4.0, 2.0, angle=30 * u.deg), CirclePixelRegion(PixCoord(1.0, 1.0), 2.0),
                             CirclePixelRegion(PixCoord(2.0, 2.0), 2.0)])}
    kws = {'ds9': {}, 'crtf': {'coordsys': 'image', 'radunit': 'pix'}, 'fits': {}}
    exts = {'ds9': 'reg', 'crtf': 'crtf', 'fits': 'fits'}
    d = tempfile.mkdtemp(prefix='vf-c14h-')
    try:
        with warnings.catch_warnings():
            warnings.simplefilter('ignore')
            plain, gz = os.path.join(d, 'copy.dat'), os.path.join(d, 'packed.dat.gz')
            for fmt in ('ds9', 'crtf', 'fits', 'ds9'):          # the same two paths are reused for every format in turn
                src = os.path.join(d, 'a.' + exts[fmt])
                regs[fmt].write(src, format=fmt, overwrite=True, **kws[fmt])
                want = Regions.read(src, format=fmt)
                shutil.copy(src, plain)
                with open(src, 'rb') as f, gzip.open(gz, 'wb') as g:
                    g.write(f.read())
                for path, what in ((src, 'extension'), (plain, 'content of a renamed copy'), (gz, 'content of a gzip-compressed copy')):
                    try:
                        got = Regions.read(path)
                        ok = len(got) == len(want) and all(a == b for a, b in zip(got, want))
                    except Exception:  # noqa
                        ok = False
                    m.require(f'{fmt}: reading with the format inferred from the {what} returns the written regions', ok)
    finally:
        shutil.rmtree(d, ignore_errors=True)


def harnesses(tier):
    P = functools.partial
    q = tier == 'quick'
    hs = [('read-back/content-signature-history (executed)', h_content_history)]
    for fmt in ('ds9', 'crtf', 'fits'):
        fails = [None, 'compound', 'not-a-region'] + (['unsupported-frame'] if fmt == 'ds9' else [])
        for fk in fails:
            for (n, pos) in ([(1, 0)] if fk is None else ([(1, 0), (3, 0), (3, 1), (3, 2)] if not q else [(3, 0), (3, 2), (1, 0)])):
                for api in (('Regions', 'Region') if (fk is None or (pos == 0 and fk != 'not-a-region')) else ('Regions',)):
                    hs.append((f'write/{fmt}/fail={fk}/n={n}/pos={pos}/{api}', P(h_write, fmt, fk, n, pos, api, False)))
        for api in ('Regions', 'Region'):
            hs.append((f'write/{fmt}/tilde-destination/{api}', P(h_write_tilde, fmt, api)))
        hs.append((f'write/{fmt}/bad-option/Regions', P(h_write, fmt, None, 2, 0, 'Regions', True)))
        hs.append((f'write/{fmt}/bad-option/Region', P(h_write, fmt, None, 1, 0, 'Region', True)))
    hs.append(('identify/write', P(h_identify, 'write')))
    hs.append(('identify/read', P(h_identify, 'read')))
    return hs


def cases(tier, seed):
    return [(name, functools.partial(chk.run_case, 'C14', name, h, max_paths=600)) for name, h in harnesses(tier)]


META = {
    'functions_encoded': ['regions.io.ds9.write._write_ds9', 'regions.io.crtf.write._write_crtf', 'regions.io.fits.write._write_fits',
                          'regions.core.registry.RegionsRegistry.write/identify_format', 'Region.write / Regions.write',
                          'regions.io.{ds9,crtf,fits}.connect.is_ds9/is_crtf/is_fits'],
    'bounds': {'quick': {'fault schedule': 'destination-exists bit and overwrite flag symbolic (Booleans); failing member in {compound, non-region, '
                                          'unsupported frame} at the first / last position of a 3-list or alone; bad option per format',
                         'path strings': 'symbolic, length <= 12, 8-bit characters, any case',
                         'tilde destinations': "'~/dest.<ext>' with an existing file at the expanded path, symbolic overwrite flag, path-aware model filesystem (DS9, CRTF) / real temporary HOME (FITS, replays); only the no-clobber obligation, nothing about success"}},
    'outside_claim': ['real filesystem semantics beyond the occupied/dangling bits (partial writes, astropy BinTableHDU.writeto internals): in the '
                      'solver-decided cases the filesystem is an event-recording stub and content-signature identification is stubbed as "no such file"; '
                      'reading back through the content signature of renamed / gzip-compressed copies is covered only by ONE EXECUTED history on a real '
                      'temporary directory (read-back/content-signature-history), which is an execution of the real library, not a solver verdict',
                      'sky regions in FITS lists and unsupported shapes are skipped with a warning (not a failure): covered in C12'],
    'stubs': ['os / open in the namespace of io/ds9/write and io/crtf/write: lexists returns a symbolic Bool, open records an event',
              'fits.BinTableHDU in io/fits/write: records writeto(filename, overwrite); raises OSError iff exists and not overwrite',
              'get_readable_fileobj / fits.open in the connect modules: raise OSError'],
    'assumptions': ['a write is observable only through open(..., "w") / writeto / remove / rename events'],
}
