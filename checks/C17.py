"""C17 no sequence of constructions and assignments yields an invalid region."""
import functools
import math

import numpy as np
import z3
import astropy.units as u

from vf import chk, symx, kernels
from vf.chk import And, Or, Not, Implies, Iff, If

REJECT = (ValueError, TypeError, KeyError)


def _sky(ra=10.0, dec=20.0):
    from astropy.coordinates import SkyCoord
    return SkyCoord(ra, dec, unit='deg')


def _skyarr():
    from astropy.coordinates import SkyCoord
    return SkyCoord([1, 2], [3, 4], unit='deg')


def _classes():
    """name -> (constructor taking overrides, {param: kind})"""
    import regions as R
    from regions import PixCoord
    P0 = lambda: PixCoord(1.0, 2.0)
    d = {}
    d['circle'] = (lambda **k: R.CirclePixelRegion(**{**dict(center=P0(), radius=3.0), **k}),
                   {'center': 'pix', 'radius': 'pos'})
    d['ellipse'] = (lambda **k: R.EllipsePixelRegion(**{**dict(center=P0(), width=3.0, height=2.0, angle=10 * u.deg), **k}),
                    {'center': 'pix', 'width': 'pos', 'height': 'pos', 'angle': 'angle'})
    d['rectangle'] = (lambda **k: R.RectanglePixelRegion(**{**dict(center=P0(), width=3.0, height=2.0, angle=10 * u.deg), **k}),
                      {'center': 'pix', 'width': 'pos', 'height': 'pos', 'angle': 'angle'})
    d['polygon'] = (lambda **k: R.PolygonPixelRegion(**{**dict(vertices=PixCoord([0., 1., 0.], [0., 0., 1.])), **k}),
                    {'vertices': 'pix1d'})
    d['regpoly'] = (lambda **k: R.RegularPolygonPixelRegion(**{**dict(center=P0(), nvertices=5, radius=2.0, angle=0 * u.deg), **k}),
                    {'center': 'pix', 'radius': 'pos', 'angle': 'angle'})
    d['point'] = (lambda **k: R.PointPixelRegion(**{**dict(center=P0()), **k}), {'center': 'pix'})
    d['text'] = (lambda **k: R.TextPixelRegion(**{**dict(center=P0(), text='t'), **k}), {'center': 'pix'})
    d['line'] = (lambda **k: R.LinePixelRegion(**{**dict(start=P0(), end=PixCoord(3., 4.)), **k}), {'start': 'pix', 'end': 'pix'})
    d['annulus-circle'] = (lambda **k: R.CircleAnnulusPixelRegion(**{**dict(center=P0(), inner_radius=1.0, outer_radius=2.0), **k}),
                           {'center': 'pix', 'inner_radius': 'pos', 'outer_radius': 'pos'})
    d['annulus-ellipse'] = (lambda **k: R.EllipseAnnulusPixelRegion(**{**dict(center=P0(), inner_width=1.0, outer_width=2.0,
                                                                                 inner_height=1.0, outer_height=2.0,
                                                                                 angle=0 * u.deg), **k}),
                            {'center': 'pix', 'inner_width': 'pos', 'outer_width': 'pos', 'inner_height': 'pos',
                             'outer_height': 'pos', 'angle': 'angle'})
    d['annulus-rectangle'] = (lambda **k: R.RectangleAnnulusPixelRegion(**{**dict(center=P0(), inner_width=1.0, outer_width=2.0,
                                                                                     inner_height=1.0, outer_height=2.0,
                                                                                     angle=0 * u.deg), **k}),
                              {'center': 'pix', 'inner_width': 'pos', 'outer_width': 'pos', 'inner_height': 'pos',
                               'outer_height': 'pos', 'angle': 'angle'})
    d['sky-circle'] = (lambda **k: R.CircleSkyRegion(**{**dict(center=_sky(), radius=3 * u.arcsec), **k}),
                       {'center': 'sky', 'radius': 'posangle'})
    d['sky-ellipse'] = (lambda **k: R.EllipseSkyRegion(**{**dict(center=_sky(), width=3 * u.arcsec, height=2 * u.arcsec,
                                                                 angle=5 * u.deg), **k}),
                        {'center': 'sky', 'width': 'posangle', 'height': 'posangle', 'angle': 'angle'})
    d['sky-rectangle'] = (lambda **k: R.RectangleSkyRegion(**{**dict(center=_sky(), width=3 * u.arcsec, height=2 * u.arcsec,
                                                                     angle=5 * u.deg), **k}),
                          {'center': 'sky', 'width': 'posangle', 'height': 'posangle', 'angle': 'angle'})
    d['sky-annulus-circle'] = (lambda **k: R.CircleAnnulusSkyRegion(**{**dict(center=_sky(), inner_radius=1 * u.arcsec,
                                                                              outer_radius=2 * u.arcsec), **k}),
                               {'center': 'sky', 'inner_radius': 'posangle', 'outer_radius': 'posangle'})
    d['sky-polygon'] = (lambda **k: R.PolygonSkyRegion(**{**dict(vertices=_skyarr()), **k}), {'vertices': 'sky1d'})
    d['sky-point'] = (lambda **k: R.PointSkyRegion(**{**dict(center=_sky()), **k}), {'center': 'sky'})
    d['sky-line'] = (lambda **k: R.LineSkyRegion(**{**dict(start=_sky(), end=_sky(11, 21)), **k}), {'start': 'sky', 'end': 'sky'})
    return d


def _invalid(kind):
    from regions import PixCoord
    common = ['a string', None, [1, 2], (1, 2), {'a': 1}]
    if kind == 'pos':
        return common + [0, 0.0, -1, -2.5, float('nan'), float('inf'), float('-inf'), np.array(3.0) * u.pix, 3 * u.deg,
                         np.array([1.0, 2.0]), np.float64('nan'), np.array([3.0]), 1 + 2j]
    if kind == 'posangle':
        return common + [3.0, 0 * u.deg, -1 * u.arcsec, 3 * u.m, 3 * u.pix, np.array([1., 2.]) * u.deg, float('nan') * u.deg,
                         float('inf') * u.deg, u.Quantity(3.0), 3 * u.sr, 3 * u.deg ** 2, 3 * u.arcsec ** 2, 3 * u.deg / u.s, 3 * u.hourangle * u.m]
    if kind == 'angle':
        return common + [3.0, 3 * u.m, 3 * u.pix, np.array([1., 2.]) * u.deg, u.Quantity(3.0), 3 * u.sr, 3 * u.deg ** 2, 3 * u.rad / u.s]
    if kind == 'pix':
        return common + [PixCoord([1., 2.], [3., 4.]), _sky(), 3.0, (1.0, 2.0), PixCoord(np.zeros((2, 2)), np.zeros((2, 2)))]
    if kind == 'pix1d':
        return common + [PixCoord(1., 2.), _skyarr(), PixCoord(np.zeros((2, 2)), np.zeros((2, 2))), np.zeros((3, 2))]
    if kind == 'sky':
        return common + [_skyarr(), PixCoord(1., 2.), (10.0, 20.0), 10 * u.deg]
    if kind == 'sky1d':
        return common + [_sky(), PixCoord([1., 2.], [3., 4.]), np.zeros((3, 2))]
    raise ValueError(kind)


def _fingerprint(reg):
    out = []
    for k in sorted(reg.__dict__):
        v = reg.__dict__[k]
        out.append((k, id(v), repr(v)[:200]))
    return out


def h_catalogue(name, m):
    """every invalid value of every parameter is rejected at construction and on assignment,
    and a rejected assignment leaves the object exactly as it was; valid values read back"""
    ctor, params = _classes()[name]
    reg = ctor()
    for p, kind in params.items():
        for bad in _invalid(kind):
            tag = f'{name}.{p} <- {type(bad).__name__}:{str(bad)[:24]}'
            try:
                ctor(**{p: bad})
                m.require(f'constructor rejects {tag}', False, key=_key(name, p, kind, bad))
            except REJECT:
                m.require(f'constructor rejects {tag}', True)
            before = _fingerprint(reg)
            try:
                setattr(reg, p, bad)
                m.require(f'assignment rejects {tag}', False, key=_key(name, p, kind, bad))
                reg = ctor()
            except REJECT:
                m.require(f'assignment rejects {tag}', True)
                m.require(f'rejected assignment {tag} leaves the region unchanged', _fingerprint(reg) == before)
        try:
            delattr(reg, p)
            m.require(f'{name}.{p} cannot be deleted', False)
            reg = ctor()
        except AttributeError:
            m.require(f'{name}.{p} cannot be deleted', True)
    for p in ('meta', 'visual'):
        for bad in ('str', 5, None, [('a', 1)], {'not_a_valid_key': 1}):
            before = _fingerprint(reg)
            try:
                setattr(reg, p, bad)
                ok = False
            except REJECT:
                ok = True
            m.require(f'{name}.{p} <- {bad!r:.30} rejected', ok)
            if ok:
                m.require(f'rejected {p} assignment leaves the region unchanged', _fingerprint(reg) == before)
        try:
            delattr(reg, p)
            m.require(f'{name}.{p} cannot be deleted', False)
            reg = ctor()
        except AttributeError:
            m.require(f'{name}.{p} cannot be deleted', True)
    if name in ('text',):
        try:
            del reg.text
            m.require('text.text cannot be deleted', False, key='C17:text:deletable')
        except AttributeError:
            m.require('text.text cannot be deleted', True)


def _key(name, p, kind, bad):
    return None


def h_symbolic_sizes(name, m):
    """for ALL finite real sizes: accepted exactly when strictly positive; accepted values read
    back unchanged (constructor and assignment)"""
    ctor, params = _classes()[name]
    for p, kind in params.items():
        if kind not in ('pos', 'posangle') or p.startswith('inner') or p.startswith('outer'):
            continue
        v = m.real(f'{p}_v')
        val = v if kind == 'pos' else u.Quantity(v, u.arcsec, dtype=object if m.sym else float)
        try:
            reg = ctor(**{p: val})
            m.require(f'{name}({p}=v) accepted only if v > 0', v > 0)
            got = getattr(reg, p)
            m.require(f'{name}.{p} reads back unchanged', got is val)
        except ValueError:
            m.require(f'{name}({p}=v) rejected only if v <= 0', v <= 0)
        reg = ctor()
        w = m.real(f'{p}_w')
        wal = w if kind == 'pos' else u.Quantity(w, u.arcsec, dtype=object if m.sym else float)
        old = getattr(reg, p)
        try:
            setattr(reg, p, wal)
            m.require(f'{name}.{p} = w accepted only if w > 0', w > 0)
            m.require(f'{name}.{p} reads back the assigned value', getattr(reg, p) is wal)
        except ValueError:
            m.require(f'{name}.{p} = w rejected only if w <= 0', w <= 0)
            m.require(f'{name}.{p} unchanged after the rejected assignment', getattr(reg, p) is old)


def h_annulus(name, m, mixed=False):
    """annulus: outer sizes must exceed inner ones, at construction and after every assignment"""
    import regions as R
    from regions import PixCoord
    a, b = m.pos('inner'), m.pos('outer')
    sky = name.startswith('sky')
    q = (lambda x: u.Quantity(x, u.arcsec, dtype=object if m.sym else float)) if sky else (lambda x: x)
    if sky and mixed:
        # inner sizes in arcmin, outer sizes in arcsec: the order is that of the angles, not of the bare numbers
        qi = lambda x: u.Quantity(x, u.arcmin, dtype=object if m.sym else float)
        c0 = _sky()
        if 'circle' in name:
            mk2 = lambda i, o: R.CircleAnnulusSkyRegion(c0, qi(i), q(o))
        else:
            cls2 = {'sky-annulus-ellipse': R.EllipseAnnulusSkyRegion, 'sky-annulus-rectangle': R.RectangleAnnulusSkyRegion}[name]
            mk2 = lambda i, o: cls2(c0, qi(i), q(o), qi(0.01), q(2.0))
        try:
            mk2(a, b)
            m.require('mixed units: annulus accepted only if inner < outer as angles', 60 * a < b)
        except ValueError:
            m.require('mixed units: annulus rejected only if inner >= outer as angles', 60 * a >= b)
        return
    c = _sky() if sky else PixCoord(1.0, 2.0)
    if 'circle' in name:
        cls = R.CircleAnnulusSkyRegion if sky else R.CircleAnnulusPixelRegion
        mk = lambda i, o: cls(c, q(i), q(o))
        fields = ('inner_radius', 'outer_radius')
    else:
        cls = {'annulus-ellipse': R.EllipseAnnulusPixelRegion, 'annulus-rectangle': R.RectangleAnnulusPixelRegion,
               'sky-annulus-ellipse': R.EllipseAnnulusSkyRegion, 'sky-annulus-rectangle': R.RectangleAnnulusSkyRegion}[name]
        mk = lambda i, o: cls(c, q(i), q(o), q(1.0), q(2.0))
        fields = ('inner_width', 'outer_width')
    try:
        mk(a, b)
        m.require('annulus accepted only if inner < outer', a < b)
    except ValueError:
        m.require('annulus rejected only if inner >= outer', a >= b)
    # assignment after construction
    reg = mk(1.0, 2.0)
    x = m.pos('new_inner')
    try:
        setattr(reg, fields[0], q(x))
        m.require('assigning an inner size not below the outer size is rejected', x < 2.0, key='C17:annulus:order-on-assignment')
    except ValueError:
        m.require('an inner size below the outer one is accepted', x >= 2.0)
    reg = mk(1.0, 2.0)
    y = m.pos('new_outer')
    try:
        setattr(reg, fields[1], q(y))
        m.require('assigning an outer size not above the inner size is rejected', y > 1.0, key='C17:annulus:order-on-assignment')
    except ValueError:
        m.require('an outer size above the inner one is accepted', y <= 1.0)


BAD_KEYS = ['', 'Label', 'labels', 'label ', ' colour', 'colour', 'include_', 'INCLUDE', 'foo', 'text2', 'tagg', 5, None,
            ('label',), 'width_', 'point_']


def h_meta(cls_name, m):
    """RegionMeta / RegionVisual: only the documented vocabulary gets in, by any mutation entry"""
    import regions as R
    cls = getattr(R, cls_name)
    valid = list(cls.valid_keys) + list(cls.key_mapping)
    d = cls()
    for k in valid:
        d[k] = 1
        kk = cls.key_mapping.get(k, k)
        m.require(f'{cls_name}[{k!r}] accepted and readable', d[k] == 1 and kk in d)
    m.require('only documented keys are present', set(d) <= set(cls.valid_keys))

    def entries(key):
        yield 'setitem', lambda o: o.__setitem__(key, 1)
        yield 'update(dict)', lambda o: o.update({key: 1})
        yield 'update(pairs)', lambda o: o.update([(key, 1)])
        yield 'setdefault', lambda o: o.setdefault(key, 1)
        yield 'constructor(dict)', lambda o: cls({key: 1})
        yield 'constructor(pairs)', lambda o: cls([(key, 1)])
        yield '|=', lambda o: o.__ior__({key: 1})
        yield 'fromkeys', lambda o: cls.fromkeys([key], 1)
        if isinstance(key, str) and key.isidentifier():
            yield 'update(kw)', lambda o: o.update(**{key: 1})
            yield 'constructor(kw)', lambda o: cls(**{key: 1})
    # every VALID key (aliases included) through every entry point: stored under its documented name, readable, nothing else stored
    for key in valid:
        for ename, f in entries(key):
            o = cls()
            try:
                r = f(o)
            except REJECT:
                m.require(f'{cls_name}: valid key {key!r} via {ename} is accepted', False)
                continue
            held = [x for x in (r, o) if isinstance(x, cls) and len(x)]
            target = held[0] if held else o
            kk = cls.key_mapping.get(key, key)
            m.require(f'{cls_name}: valid key {key!r} via {ename} is stored under its documented name only',
                      set(target) == {kk} and target[key] == 1 and target[kk] == 1)
    for key in BAD_KEYS:
        for ename, f in entries(key):
            o = cls({'label': 'x'} if cls_name == 'RegionMeta' else {'color': 'x'})
            before = dict(o)
            try:
                r = f(o)
                held = [x for x in (o, r) if isinstance(x, cls)]
                leaked = any(key in x for x in held if isinstance(key, (str, int, tuple, type(None))))
                m.require(f'{cls_name}: key {key!r} via {ename} is rejected', not leaked,
                          key='C17:meta:ior-unvalidated' if ename == '|=' else None)
            except REJECT:
                m.require(f'{cls_name}: key {key!r} via {ename} is rejected', True)
                m.require(f'{cls_name}: rejected {ename} leaves the dict unchanged', dict(o) == before)
    # the other mapping class is not accepted wholesale
    other = R.RegionVisual({'color': 'red'}) if cls_name == 'RegionMeta' else R.RegionMeta({'label': 'x'})
    for ename, f in (('constructor', lambda: cls(other)), ('update', lambda: cls().update(other))):
        try:
            r = f()
            m.require(f'{cls_name}: {ename} from the other vocabulary is rejected', False)
        except REJECT:
            m.require(f'{cls_name}: {ename} from the other vocabulary is rejected', True)


def h_regions_list(m):
    from regions import Regions, CirclePixelRegion, PixCoord
    c = lambda i: CirclePixelRegion(PixCoord(float(i), 0.0), 1.0)
    items = [c(0), c(1)]
    for bad in ('x', 5, None, [c(3)], (c(4),)):
        for ename, f in (('constructor', lambda r: Regions([c(9), bad])), ('constructor(tuple)', lambda r: Regions((c(9), bad))),
                         ('constructor(generator)', lambda r: Regions(x for x in [c(9), bad])), ('constructor(iterator)', lambda r: Regions(iter([bad, c(9)]))),
                         ('constructor(map)', lambda r: Regions(map(lambda x: x, [c(9), bad]))), ('append', lambda r: r.append(bad)),
                         ('extend', lambda r: r.extend([c(7), bad])), ('extend-first', lambda r: r.extend([bad, c(7)])),
                         ('insert', lambda r: r.insert(0, bad)), ('insert-end', lambda r: r.insert(5, bad))):
            regs = Regions(list(items))
            try:
                f(regs)
                m.require(f'Regions.{ename}({type(bad).__name__}) is rejected', False,
                          key='C17:regions:insert-unvalidated' if ename.startswith('insert') else None)
            except TypeError:
                m.require(f'Regions.{ename}({type(bad).__name__}) is rejected', True)
                m.require(f'rejected Regions.{ename} leaves the list unchanged',
                          len(regs) == 2 and regs.regions[0] is items[0] and regs.regions[1] is items[1])
    regs = Regions(list(items))
    regs.append(c(5))
    regs.insert(1, c(6))
    regs.extend([c(7)])
    m.require('valid members are accepted', len(regs) == 5)


def h_bbox_mask(m):
    from regions import RegionBoundingBox, RegionMask
    for bad in (1.5, '1', None, [1], np.array([1, 2]), 2.0):
        for pos in range(4):
            args = [0, 4, 0, 4]
            args[pos] = bad
            try:
                RegionBoundingBox(*args)
                m.require(f'RegionBoundingBox rejects {type(bad).__name__} at position {pos}', False)
            except (TypeError, ValueError):
                m.require(f'RegionBoundingBox rejects {type(bad).__name__} at position {pos}', True)
    for args in ((3, 2, 0, 1), (0, 1, 5, 4)):
        try:
            RegionBoundingBox(*args)
            m.require('inverted box rejected', False)
        except ValueError:
            m.require('inverted box rejected', True)
    bb = RegionBoundingBox(0, 3, 0, 2)
    for shape in ((3, 2), (2, 2), (2, 4), (6,), ()):
        try:
            RegionMask(np.ones(shape), bb)
            m.require(f'RegionMask rejects data of shape {shape} for a 2x3 box', False)
        except ValueError:
            m.require(f'RegionMask rejects data of shape {shape} for a 2x3 box', True)
    mk = RegionMask(np.ones((2, 3)), bb)
    m.require('matching shape accepted', mk.shape == (2, 3))


def harnesses(tier):
    P = functools.partial
    hs = []
    for name in _classes():
        hs.append((f'catalogue/{name}', P(h_catalogue, name)))
    for name in ('circle', 'ellipse', 'rectangle', 'regpoly', 'sky-circle', 'sky-ellipse', 'sky-rectangle'):
        hs.append((f'symbolic-sizes/{name}', P(h_symbolic_sizes, name)))
    for name in ('annulus-circle', 'annulus-ellipse', 'annulus-rectangle', 'sky-annulus-circle', 'sky-annulus-ellipse',
                 'sky-annulus-rectangle'):
        hs.append((f'annulus-order/{name}', P(h_annulus, name)))
        if name.startswith('sky'):
            hs.append((f'annulus-order/{name}/mixed-units', P(h_annulus, name, mixed=True)))
    hs.append(('meta/RegionMeta', P(h_meta, 'RegionMeta')))
    hs.append(('meta/RegionVisual', P(h_meta, 'RegionVisual')))
    hs.append(('regions-list', h_regions_list))
    hs.append(('bbox-mask', h_bbox_mask))
    return hs


def cases(tier, seed):
    return [(name, functools.partial(chk.run_case, 'C17', name, h, max_paths=2000)) for name, h in harnesses(tier)]


META = {
    'functions_encoded': ['regions.core.attributes: all descriptors (__set__/__delete__/_validate) through every constructor and setattr',
                          'annulus constructors', 'regions.core.metadata.Meta.__init__/__setitem__/update/setdefault (+ inherited dict entry points)',
                          'regions.core.regions.Regions.__init__/append/extend/insert', 'RegionBoundingBox.__init__', 'RegionMask.__init__'],
    'bounds': {'quick': {'sizes': 'ALL finite reals symbolically (accept iff > 0, read-back identity) + the non-finite doubles nan, +inf, -inf enumerated',
                         'wrong-kind catalogue': '12-18 values per parameter kind x {constructor, assignment} x every parameter of 18 classes',
                         'annulus order': 'symbolic inner/outer (all positive reals), construction and single assignment; sky annuli also with inner in arcmin and outer in arcsec',
                         'metadata keys': 'every documented key + 16 invalid keys x 10 entry points'}},
    'outside_claim': ['interleavings of valid and invalid assignments longer than one rejected + one accepted step (each step is '
                      'checked from an arbitrary valid state of the same class: the descriptors are stateless)',
                      'metadata keys are enumerated strings, not symbolic strings'],
    'stubs': ['astropy.units.Quantity.__new__: object dtype for symbolic payloads'],
    'assumptions': ['floats are interpreted as reals in the symbolic part; nan/inf are covered by enumeration'],
}
