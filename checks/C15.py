"""C15 membership, area, boxes and masks follow the region under rigid motions."""
import functools

import numpy as np
import z3
import astropy.units as u

from vf import chk, oracle as O, symx, kernels
from vf.chk import And, Or, Not, Implies, Iff, If
from checks import C02

META_IN = {'label': 'L1', 'tag': ['a', 'b']}
VIS_IN = {'color': 'red', 'linewidth': 2}


def _mk(kind, m, pre=''):
    """returns (region, fin(px,py), fout(px,py), params dict) for a symbolic region of `kind`"""
    from regions import (CirclePixelRegion, EllipsePixelRegion, RectanglePixelRegion, PolygonPixelRegion,
                         RegularPolygonPixelRegion, PointPixelRegion, LinePixelRegion, TextPixelRegion,
                         CircleAnnulusPixelRegion, EllipseAnnulusPixelRegion, RectangleAnnulusPixelRegion, PixCoord,
                         RegionMeta, RegionVisual)
    meta, vis = RegionMeta(META_IN), RegionVisual(VIS_IN)
    cx, cy = m.real(pre + 'cx'), m.real(pre + 'cy')
    dt = object if m.sym else float
    never = lambda px, py: False
    always_out = lambda px, py: True
    if kind == 'circle':
        r = m.pos(pre + 'r')
        return (CirclePixelRegion(PixCoord(cx, cy), r, meta=meta, visual=vis),
                lambda px, py: O.disk_in(px, py, cx, cy, r), lambda px, py: O.disk_out(px, py, cx, cy, r))
    if kind in ('ellipse', 'rectangle'):
        w, h = m.pos(pre + 'w'), m.pos(pre + 'h')
        ang = m.angle(pre + 'theta', 'deg')
        c, s = symx.angle_cs(ang)
        cls = EllipsePixelRegion if kind == 'ellipse' else RectanglePixelRegion
        fi, fo = (O.ellipse_in, O.ellipse_out) if kind == 'ellipse' else (O.rect_in, O.rect_out)
        return (cls(PixCoord(cx, cy), w, h, angle=ang, meta=meta, visual=vis),
                lambda px, py: fi(px, py, cx, cy, w, h, c, s), lambda px, py: fo(px, py, cx, cy, w, h, c, s))
    if kind == 'polygon-origin':
        vx = [cx] + [cx + m.real(f'{pre}ex{i}') for i in (1, 2)]
        vy = [cy] + [cy + m.real(f'{pre}ey{i}') for i in (1, 2)]
        ox, oy = m.real(pre + 'ox'), m.real(pre + 'oy')
        return (PolygonPixelRegion(PixCoord(np.array([x - ox for x in vx], dtype=dt), np.array([y - oy for y in vy], dtype=dt)),
                                   origin=PixCoord(ox, oy), meta=meta, visual=vis),
                lambda px, py: O.triangle_in(px, py, vx, vy), lambda px, py: O.triangle_out(px, py, vx, vy))
    if kind == 'polygon':
        vx = [cx] + [cx + m.real(f'{pre}ex{i}') for i in (1, 2)]
        vy = [cy] + [cy + m.real(f'{pre}ey{i}') for i in (1, 2)]
        return (PolygonPixelRegion(PixCoord(np.array(vx, dtype=dt), np.array(vy, dtype=dt)), meta=meta, visual=vis),
                lambda px, py: O.triangle_in(px, py, vx, vy), lambda px, py: O.triangle_out(px, py, vx, vy))
    if kind == 'regpoly':
        rad = m.pos(pre + 'rad')
        ang = m.angle(pre + 'theta', 'deg')
        return (RegularPolygonPixelRegion(PixCoord(cx, cy), 4, rad, angle=ang, meta=meta, visual=vis), None, None)
    if kind == 'point':
        return PointPixelRegion(PixCoord(cx, cy), meta=meta, visual=vis), never, always_out
    if kind == 'text':
        return TextPixelRegion(PixCoord(cx, cy), 'hello', meta=meta, visual=vis), never, always_out
    if kind == 'line':
        return (LinePixelRegion(PixCoord(cx, cy), PixCoord(cx + m.real(pre + 'ex'), cy + m.real(pre + 'ey')), meta=meta,
                                visual=vis), never, always_out)
    if kind == 'annulus-circle':
        r1, r2 = m.pos(pre + 'r1'), m.pos(pre + 'r2')
        m.assume(r1 < r2)
        return (CircleAnnulusPixelRegion(PixCoord(cx, cy), r1, r2, meta=meta, visual=vis),
                lambda px, py: And(O.disk_in(px, py, cx, cy, r2), O.disk_out(px, py, cx, cy, r1)),
                lambda px, py: Or(O.disk_out(px, py, cx, cy, r2), O.disk_in(px, py, cx, cy, r1)))
    if kind in ('annulus-ellipse', 'annulus-rectangle'):
        w1, w2, h1, h2 = m.pos(pre + 'w1'), m.pos(pre + 'w2'), m.pos(pre + 'h1'), m.pos(pre + 'h2')
        m.assume(w1 < w2)
        m.assume(h1 < h2)
        ang = m.angle(pre + 'theta', 'deg')
        c, s = symx.angle_cs(ang)
        cls = EllipseAnnulusPixelRegion if kind == 'annulus-ellipse' else RectangleAnnulusPixelRegion
        fi, fo = (O.ellipse_in, O.ellipse_out) if kind == 'annulus-ellipse' else (O.rect_in, O.rect_out)
        return (cls(PixCoord(cx, cy), w1, w2, h1, h2, angle=ang, meta=meta, visual=vis),
                lambda px, py: And(fi(px, py, cx, cy, w2, h2, c, s), fo(px, py, cx, cy, w1, h1, c, s)),
                lambda px, py: Or(fo(px, py, cx, cy, w2, h2, c, s), fi(px, py, cx, cy, w1, h1, c, s)))
    raise ValueError(kind)


def _params(reg):
    """flat list of (name, value) of all numeric shape parameters"""
    from regions import PixCoord
    out = []
    for p in reg._params:
        v = getattr(reg, p)
        if isinstance(v, PixCoord):
            for a, b in zip(np.asarray(v.x, dtype=object).reshape(-1), np.asarray(v.y, dtype=object).reshape(-1)):
                out.append((p + '.x', a))
                out.append((p + '.y', b))
        elif isinstance(v, u.Quantity):
            out.append((p, v.to_value(u.deg)[()] if isinstance(v.to_value(u.deg), np.ndarray) else v.to_value(u.deg)))
        elif isinstance(v, str):
            out.append((p, v))
        else:
            out.append((p, v))
    return out


def _same_params(a, b, tol_angle=False):
    pa, pb = _params(a), _params(b)
    if [n for n, _ in pa] != [n for n, _ in pb]:
        return False
    conds = []
    for (n, x), (_, y) in zip(pa, pb):
        if isinstance(x, str) or isinstance(y, str):
            conds.append(x == y)
        else:
            conds.append(x == y)
    return And(*conds) if conds else True


def _poly_shims(m):
    kernels.install(m, ('pnpoly',))


def h_rotate(kind, au, direct, m):
    from regions import PixCoord
    _poly_shims(m)
    reg, fin, fout = _mk(kind, m)
    before = _params(reg)
    qx, qy = m.real('pivot_x'), m.real('pivot_y')
    al = m.angle('alpha', au)
    ca, sa = symx.angle_cs(al)
    rot = reg.rotate(PixCoord(qx, qy), al)
    m.require('rotation returns a new region of the same class', type(rot) is type(reg) and rot is not reg)
    m.require('meta and visual are equal', dict(rot.meta) == dict(reg.meta) and dict(rot.visual) == dict(reg.visual))
    m.require('meta and visual are not aliased', rot.meta is not reg.meta and rot.visual is not reg.visual
              and rot.meta['tag'] is not reg.meta['tag'])
    after = _params(reg)
    m.require('the original region is untouched',
              len(before) == len(after) and all((a is b) or (not symx.is_sym(a) and not symx.is_sym(b) and a == b)
                                                for (_, a), (_, b) in zip(before, after)))
    try:
        a0, a1 = reg.area, rot.area
        m.require('area is preserved', a0 == a1)
    except NotImplementedError:
        pass
    back = rot.rotate(PixCoord(qx, qy), -al)
    m.require('rotating back restores every parameter', _same_params(back, reg))
    # parameters of the rotated region: centre / vertices rotated about the pivot, angle added
    pr, p0 = _params(rot), _params(reg)
    names = [n for n, _ in p0]
    conds = []
    k = 0
    while k < len(p0):
        n, v = p0[k]
        if n.endswith('.x'):
            x0, y0 = v, p0[k + 1][1]
            conds.append(And(pr[k][1] == qx + ca * (x0 - qx) - sa * (y0 - qy),
                             pr[k + 1][1] == qy + sa * (x0 - qx) + ca * (y0 - qy)))
            k += 2
            continue
        if n == 'angle':
            adeg = al.to_value(u.deg)
            adeg = adeg[()] if isinstance(adeg, np.ndarray) else adeg
            conds.append(pr[k][1] == v + adeg)
        else:
            conds.append(pr[k][1] == v)
        k += 1
    m.require('rotated parameters: positions rotated about the pivot, angle increased by the rotation, sizes kept',
              And(*conds) if [a for a, _ in pr] == names else False)
    if direct and fin is not None:
        dx, dy = m.real('px'), m.real('py')
        # query point p (relative to the region centre) and its image R p about the pivot
        cx0 = _params(reg)[0][1]
        cy0 = _params(reg)[1][1]
        px, py = cx0 + dx, cy0 + dy
        rx, ry = qx + ca * (px - qx) - sa * (py - qy), qy + sa * (px - qx) + ca * (py - qy)
        res = rot.contains(PixCoord(rx, ry))
        if isinstance(res, np.ndarray) and res.size == 1:
            res = res.reshape(-1)[0]
        m.require('rotated region contains R p when the original strictly contains p', Implies(fin(px, py), res))
        m.require('rotated region excludes R p when p is strictly outside the original', Implies(fout(px, py), Not(res)))


def h_rotate_compound(m):
    from regions import CirclePixelRegion, RectanglePixelRegion, PixCoord, RegionMeta
    a, ain, aout = _mk('circle', m, 'a_')
    b, bin_, bout = _mk('rectangle', m, 'b_')
    comp = a ^ b
    comp.meta = RegionMeta({'include': False, 'label': 'cmp'})
    qx, qy = m.real('pivot_x'), m.real('pivot_y')
    al = m.angle('alpha', 'deg')
    ca, sa = symx.angle_cs(al)
    rot = comp.rotate(PixCoord(qx, qy), al)
    m.require('rotated compound keeps class, operator and its own meta',
              type(rot) is type(comp) and rot.operator is comp.operator and dict(rot.meta) == dict(comp.meta)
              and rot.meta is not comp.meta)
    px, py = m.real('px'), m.real('py')
    rx, ry = qx + ca * (px - qx) - sa * (py - qy), qy + sa * (px - qx) + ca * (py - qy)
    res = rot.contains(PixCoord(rx, ry))
    off = And(Or(ain(px, py), aout(px, py)), Or(bin_(px, py), bout(px, py)))
    expected = Not(chk.Xor(ain(px, py), bin_(px, py)))       # include=False: complement of the xor
    m.require('rotated compound answers like the original at the un-rotated position', Implies(off, Iff(res, expected)))


def _translated(kind, m, K, L):
    """two regions with identical shape parameters, the second translated by integers (K, L)"""
    from regions import CirclePixelRegion, RectanglePixelRegion, PolygonPixelRegion, PixCoord
    cx, cy = m.real('cx'), m.real('cy')
    dt = object if m.sym else float
    if kind == 'circle':
        r = m.pos('r', hi=1)
        return CirclePixelRegion(PixCoord(cx, cy), r), CirclePixelRegion(PixCoord(cx + K, cy + L), r)
    if kind == 'rectangle':
        w, h = m.pos('w', hi=1.4), m.pos('h', hi=1.4)
        ang = m.angle('theta', 'deg')
        return (RectanglePixelRegion(PixCoord(cx, cy), w, h, angle=ang),
                RectanglePixelRegion(PixCoord(cx + K, cy + L), w, h, angle=ang))
    if kind == 'ellipse':
        from regions import EllipsePixelRegion
        w, h = m.pos('w', hi=1.4), m.pos('h', hi=1.4)
        ang = m.angle('theta', 'deg')
        return (EllipsePixelRegion(PixCoord(cx, cy), w, h, angle=ang),
                EllipsePixelRegion(PixCoord(cx + K, cy + L), w, h, angle=ang))
    raise ValueError(kind)


def h_translate(kind, mode, n, m):
    C02.shims(m)
    K, L = m.integer('K'), m.integer('L')
    a, b = _translated(kind, m, K, L)
    ba, bb = a.bounding_box, b.bounding_box
    m.lemma('bounding box translates by the same whole pixels',
            And(bb.ixmin == ba.ixmin + K, bb.ixmax == ba.ixmax + K, bb.iymin == ba.iymin + L, bb.iymax == ba.iymax + L))
    if mode is None:
        return
    kw = {'mode': mode}
    if mode == 'subpixels':
        kw['subpixels'] = n
    ma, mb = a.to_mask(**kw), b.to_mask(**kw)
    da, db = C02.cells_of(ma), C02.cells_of(mb)
    m.require('translated mask has the same shape', da.shape == db.shape)
    if da.shape == db.shape:
        for idx in np.ndindex(*da.shape):
            m.require(f'mask value {list(idx)} unchanged by the translation', da[idx] == db[idx])


SLOW_DIRECT = ('ellipse', 'annulus-ellipse', 'polygon', 'polygon-origin')


def h_frame_lemma(m):
    """(oracle-side lemma) the coordinates of R p in the frame of the rotated shape equal the
    coordinates of p in the frame of the original shape; so every shape defined through its frame
    coordinates (ellipse, rectangle, their annuli) has rotation-invariant membership once the
    rotated parameters are right"""
    cx, cy, px, py, qx, qy = (m.real(n) for n in ('cx', 'cy', 'px', 'py', 'qx', 'qy'))
    th, al = m.angle('theta', 'deg'), m.angle('alpha', 'deg')
    c0, s0 = symx.angle_cs(th)
    ca, sa = symx.angle_cs(al)
    c1, s1 = symx.angle_cs(th + al)
    R = lambda x, y: (qx + ca * (x - qx) - sa * (y - qy), qy + sa * (x - qx) + ca * (y - qy))
    rpx, rpy = R(px, py)
    rcx, rcy = R(cx, cy)
    u0, v0 = O.to_frame(px, py, cx, cy, c0, s0)
    u1, v1 = O.to_frame(rpx, rpy, rcx, rcy, c1, s1)
    m.require('frame coordinates are invariant under the rigid motion', And(u0 == u1, v0 == v1))


def harnesses(tier):
    P = functools.partial
    q = tier == 'quick'
    hs = []
    kinds = ['circle', 'ellipse', 'rectangle', 'polygon', 'polygon-origin', 'regpoly', 'point', 'text', 'line', 'annulus-circle',
             'annulus-ellipse', 'annulus-rectangle']
    for k in kinds:
        for au in ((['deg'] + (['rad'] if k in ('annulus-ellipse', 'annulus-rectangle', 'rectangle') else [])) if q else ['deg', 'rad', 'arcmin']):
            hs.append((f'rotate/{k}/{au}', P(h_rotate, k, au, k not in SLOW_DIRECT or (not q and k == 'polygon'))))
    hs.append(('rotate/compound', h_rotate_compound))
    hs.append(('rotate/frame-lemma', h_frame_lemma))
    for k in ('circle', 'rectangle', 'ellipse'):
        hs.append((f'translate/{k}/box', P(h_translate, k, None, 1)))
    hs.append(('translate/circle/center', P(h_translate, 'circle', 'center', 1)))
    hs.append(('translate/rectangle/center', P(h_translate, 'rectangle', 'center', 1)))
    if not q:
        hs.append(('translate/circle/subpixels2', P(h_translate, 'circle', 'subpixels', 2)))
        hs.append(('translate/rectangle/subpixels2', P(h_translate, 'rectangle', 'subpixels', 2)))
        hs.append(('translate/ellipse/center', P(h_translate, 'ellipse', 'center', 1)))
        hs.append(('translate/ellipse/subpixels2', P(h_translate, 'ellipse', 'subpixels', 2)))
    return hs


def cases(tier, seed):
    return [(name, functools.partial(chk.run_case, 'C15', name, h, max_paths=3000)) for name, h in harnesses(tier)]


META = {
    'functions_encoded': ['regions.core.pixcoord.PixCoord.rotate', 'rotate of Circle/Ellipse/Rectangle/Polygon/RegularPolygon/'
                          'Point/Text/Line/annulus/compound pixel regions', 'Region.copy', 'area of every class',
                          'contains of the rotated region', 'bounding_box / to_mask of integer translates (with the .pyx kernels)'],
    'bounds': {'quick': {'rotation': 'arbitrary pivot and angle (unit-circle atom; rotation angle in deg, for rectangles and the two asymmetric annuli also in rad while the region angle is in deg)', 'polygon': 'triangle',
                         'regular polygon': 'n = 4', 'translation': 'unbounded integer (K, L); masks: circle/rectangle centre mode, box <= 3x3'},
               'thorough': {'rotation angle units': ['deg', 'rad', 'arcmin'],
                            'translation masks': 'circle/rectangle/ellipse, centre and subpixels=2'}},
    'outside_claim': ['float inexactness of translations (reals model; the statement restricts to dyadic rationals)',
                      'exact-mode masks under translation; polygons with more than 3 vertices',
                      'rotation of compounds nested deeper than 1'],
    'stubs': ['pnpoly / overlap kernels -> pyxsym interpretation of the .pyx sources',
              'regions.core.bounding_box._is_int/int, shape modules float'],
    'assumptions': ['floats are interpreted as reals', 'angles are unit-circle atoms; angle arithmetic is linear'],
}
