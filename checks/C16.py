"""C16 regions are values: copies are equal and independent, equality sees every field."""
import functools

import numpy as np
import z3
import astropy.units as u

from vf import chk, symx, kernels
from vf.chk import And, Or, Not, Implies, Iff, If

PIXKINDS = ['circle', 'ellipse', 'rectangle', 'polygon', 'polygon-origin', 'regpoly', 'point', 'text', 'line', 'annulus-circle',
            'annulus-ellipse', 'annulus-rectangle', 'compound']
SKYKINDS = ['sky-circle', 'sky-ellipse', 'sky-rectangle', 'sky-annulus-circle', 'sky-polygon', 'sky-point', 'sky-line',
            'sky-text']


def _shims(m):
    if m.sym:
        m.shim('regions.core.pixcoord', 'np', kernels.NPFacade())


def _sky(ra, dec):
    from astropy.coordinates import SkyCoord
    return SkyCoord(ra, dec, unit='deg', frame='icrs')


def build(kind, m, pre, meta=None, visual=None):
    """(region, {field: comparable value}) ; numeric fields symbolic"""
    import regions as R
    from regions import PixCoord, RegionMeta, RegionVisual
    meta = RegionMeta(meta if meta is not None else {'label': 'L', 'tag': ['t1']})
    visual = RegionVisual(visual if visual is not None else {'color': 'blue'})
    dt = object if m.sym else float
    r_ = lambda n: m.real(pre + n)
    p_ = lambda n: m.pos(pre + n)
    if kind == 'circle':
        return R.CirclePixelRegion(PixCoord(r_('cx'), r_('cy')), p_('r'), meta=meta, visual=visual)
    if kind in ('ellipse', 'rectangle'):
        cls = R.EllipsePixelRegion if kind == 'ellipse' else R.RectanglePixelRegion
        return cls(PixCoord(r_('cx'), r_('cy')), p_('w'), p_('h'), angle=m.angle(pre + 'theta', 'deg'), meta=meta, visual=visual)
    if kind == 'polygon':
        return R.PolygonPixelRegion(PixCoord(np.array([r_('x0'), r_('x1'), r_('x2')], dtype=dt),
                                             np.array([r_('y0'), r_('y1'), r_('y2')], dtype=dt)), meta=meta, visual=visual)
    if kind == 'polygon-origin':
        return R.PolygonPixelRegion(PixCoord(np.array([r_('x0'), r_('x1'), r_('x2')], dtype=dt),
                                             np.array([r_('y0'), r_('y1'), r_('y2')], dtype=dt)), meta=meta, visual=visual,
                                    origin=PixCoord(r_('ox'), r_('oy')))
    if kind == 'regpoly':
        return R.RegularPolygonPixelRegion(PixCoord(r_('cx'), r_('cy')), 4, p_('rad'), angle=m.angle(pre + 'theta', 'deg'),
                                           meta=meta, visual=visual)
    if kind == 'point':
        return R.PointPixelRegion(PixCoord(r_('cx'), r_('cy')), meta=meta, visual=visual)
    if kind == 'text':
        return R.TextPixelRegion(PixCoord(r_('cx'), r_('cy')), 'txt', meta=meta, visual=visual)
    if kind == 'line':
        return R.LinePixelRegion(PixCoord(r_('sx'), r_('sy')), PixCoord(r_('ex'), r_('ey')), meta=meta, visual=visual)
    if kind == 'annulus-circle':
        r1 = p_('r1')
        return R.CircleAnnulusPixelRegion(PixCoord(r_('cx'), r_('cy')), r1, r1 + p_('dr'), meta=meta, visual=visual)
    if kind in ('annulus-ellipse', 'annulus-rectangle'):
        cls = R.EllipseAnnulusPixelRegion if kind == 'annulus-ellipse' else R.RectangleAnnulusPixelRegion
        w1, h1 = p_('w1'), p_('h1')
        return cls(PixCoord(r_('cx'), r_('cy')), w1, w1 + p_('dw'), h1, h1 + p_('dh'), angle=m.angle(pre + 'theta', 'deg'),
                   meta=meta, visual=visual)
    if kind == 'compound':
        a = R.CirclePixelRegion(PixCoord(r_('cx'), r_('cy')), p_('r'))
        b = R.RectanglePixelRegion(PixCoord(r_('bx'), r_('by')), p_('w'), p_('h'))
        import operator
        return R.CompoundPixelRegion(a, b, operator.or_, meta=meta, visual=visual)
    # sky regions: concrete coordinates, symbolic angular sizes
    c0 = _sky(10.0, 20.0)
    if kind == 'sky-circle':
        return R.CircleSkyRegion(c0, p_('r') * u.arcsec, meta=meta, visual=visual)
    if kind in ('sky-ellipse', 'sky-rectangle'):
        cls = R.EllipseSkyRegion if kind == 'sky-ellipse' else R.RectangleSkyRegion
        return cls(c0, p_('w') * u.arcsec, p_('h') * u.arcsec, angle=m.angle(pre + 'theta', 'deg'), meta=meta, visual=visual)
    if kind == 'sky-annulus-circle':
        r1 = p_('r1')
        return R.CircleAnnulusSkyRegion(c0, r1 * u.arcsec, (r1 + p_('dr')) * u.arcsec, meta=meta, visual=visual)
    if kind == 'sky-polygon':
        from astropy.coordinates import SkyCoord
        return R.PolygonSkyRegion(SkyCoord([10, 11, 10.5], [20, 20, 21], unit='deg'), meta=meta, visual=visual)
    if kind == 'sky-point':
        return R.PointSkyRegion(c0, meta=meta, visual=visual)
    if kind == 'sky-line':
        return R.LineSkyRegion(c0, _sky(11.0, 21.0), meta=meta, visual=visual)
    if kind == 'sky-text':
        return R.TextSkyRegion(c0, 'txt', meta=meta, visual=visual)
    raise ValueError(kind)


def _leaves(v):
    """mutable containers reachable from a parameter value (for aliasing checks)"""
    from regions import PixCoord
    from regions.core.core import Region
    out = []
    if isinstance(v, PixCoord):
        out.append(v)
        for a in (v.x, v.y):
            if isinstance(a, np.ndarray):
                out.append(a)
    elif isinstance(v, (np.ndarray, dict, list)):
        out.append(v)
        if isinstance(v, dict):
            for x in v.values():
                out += _leaves(x)
    elif isinstance(v, Region):
        out.append(v)
        for p in list(v._params) + ['meta', 'visual']:
            out += _leaves(getattr(v, p))
    elif hasattr(v, 'frame') and hasattr(v, 'ra'):       # SkyCoord
        out.append(v)
    return out


def _no_alias(a, b):
    la = []
    for p in list(a._params) + ['meta', 'visual']:
        la += _leaves(getattr(a, p))
    lb = []
    for p in list(b._params) + ['meta', 'visual']:
        lb += _leaves(getattr(b, p))
    ids = {id(x) for x in la}
    if any(id(y) in ids for y in lb):
        return False
    arrs_a = [x for x in la if isinstance(x, np.ndarray)]
    arrs_b = [x for x in lb if isinstance(x, np.ndarray)]
    return not any(np.shares_memory(x, y) for x in arrs_a for y in arrs_b)


def _quantities_distinct(a, b):
    ok = True
    for p in a._params:
        va, vb = getattr(a, p), getattr(b, p)
        if isinstance(va, u.Quantity):
            ok = ok and (va is not vb) and not np.shares_memory(np.asarray(va.view(np.ndarray)), np.asarray(vb.view(np.ndarray)))
    return ok


def h_copy(kind, m):
    _shims(m)
    reg = build(kind, m, '')
    cp = reg.copy()
    m.require('copy has the same class', type(cp) is type(reg))
    m.require('copy compares equal to the original', cp == reg)
    m.require('original compares equal to the copy', reg == cp)
    m.require('!= is the negation of ==', Not(cp != reg))
    m.require('copy shares no mutable container with the original (positions, arrays, meta, visual, nested lists)',
              _no_alias(reg, cp))
    m.require('Quantity / SkyCoord parameters of the copy are distinct objects', _quantities_distinct(reg, cp))
    m.require('reflexive', reg == reg)
    # changing the copy's meta / visual never shows in the original
    cp.meta['label'] = 'changed'
    cp.meta['tag'].append('more')
    cp.visual['color'] = 'green'
    m.require('editing the copy leaves the original meta/visual unchanged',
              reg.meta['label'] == 'L' and reg.meta['tag'] == ['t1'] and reg.visual['color'] == 'blue')
    # copy with changes differs exactly in the named field
    cp2 = reg.copy(meta={'label': 'other'})
    m.require('copy(meta=...) differs from the original', Not(cp2 == reg))
    m.require('copy(meta=...) keeps every shape parameter', _params_equal(cp2, reg))
    # ... also when the new value is EMPTY (an explicitly given empty meta / visual is a value like any other)
    from regions import RegionMeta, RegionVisual
    cp3 = reg.copy(meta=RegionMeta())
    m.require('copy(meta=<empty>) has an empty meta', dict(cp3.meta) == {})
    m.require('copy(meta=<empty>) differs from the original (whose meta is not empty)', Not(cp3 == reg))
    cp4 = reg.copy(visual=RegionVisual())
    m.require('copy(visual=<empty>) has an empty visual', dict(cp4.visual) == {})
    if kind == 'compound':
        # a copy with a new first operand differs in exactly that field: meta and visual of the compound stay
        import regions as R
        from regions import PixCoord, RegionMeta, RegionVisual
        other = R.CirclePixelRegion(PixCoord(7.0, 8.0), 2.0, meta=RegionMeta({'label': 'other operand'}), visual=RegionVisual({'color': 'red'}))
        cp5 = reg.copy(region1=other)
        m.require('copy(region1=...) of a compound keeps the compound meta and visual',
                  dict(cp5.meta) == dict(reg.meta) and dict(cp5.visual) == dict(reg.visual) and cp5.region2 == reg.region2 and cp5.region1 == other)
        via_op = reg.region1 | reg.region2        # a compound that inherited its meta from its first operand
        cp6 = via_op.copy(region1=other)
        m.require('copy(region1=...) of an operator-built compound keeps its meta and visual',
                  dict(cp6.meta) == dict(via_op.meta) and dict(cp6.visual) == dict(via_op.visual))
    cp3.meta['label'] = 'fresh'
    m.require('editing the meta of copy(meta=<empty>) touches neither the original nor its components',
              reg.meta['label'] == 'L' and all(getattr(getattr(cp3, a_, None), 'meta', {}).get('label') != 'fresh' for a_ in ('region1', 'region2')))


def _num(v):
    if isinstance(v, u.Quantity):
        v = v.to_value(v.unit)
    if isinstance(v, np.ndarray) and v.shape == ():
        v = v[()]
    return v


def _params_equal(a, b):
    from regions import PixCoord
    from regions.core.core import Region
    conds = []
    for p in a._params:
        va, vb = getattr(a, p), getattr(b, p)
        if isinstance(va, PixCoord):
            xa, xb = np.asarray(va.x, dtype=object).reshape(-1), np.asarray(vb.x, dtype=object).reshape(-1)
            ya, yb = np.asarray(va.y, dtype=object).reshape(-1), np.asarray(vb.y, dtype=object).reshape(-1)
            conds += [x == y for x, y in zip(xa, xb)] + [x == y for x, y in zip(ya, yb)]
        elif isinstance(va, u.Quantity):
            conds.append(_num(va) == _num(vb.to(va.unit)))
        elif isinstance(va, Region):
            conds.append(_params_equal(va, vb))
        elif hasattr(va, 'frame') and hasattr(va, 'ra'):
            conds.append(bool(np.all(va.ra == vb.ra) and np.all(va.dec == vb.dec)))
        else:
            conds.append(va == vb)
    return And(*conds) if conds else True


def _close(a, b):
    """np.allclose element semantics: |a - b| <= 1e-8 + 1e-5 |b|"""
    return abs(a - b) <= 1e-8 + 1e-5 * abs(b)


def _spec_eq(a, b):
    """documented equality: same class, positions within the allclose tolerance, every other
    shape parameter exactly equal (angles after unit conversion), meta and visual equal"""
    from regions import PixCoord
    from regions.core.core import Region
    if type(a) is not type(b):
        return False
    conds = []
    for p in a._params:
        va, vb = getattr(a, p), getattr(b, p)
        if isinstance(va, PixCoord):
            xa, xb = np.asarray(va.x, dtype=object).reshape(-1), np.asarray(vb.x, dtype=object).reshape(-1)
            ya, yb = np.asarray(va.y, dtype=object).reshape(-1), np.asarray(vb.y, dtype=object).reshape(-1)
            if len(xa) != len(xb):
                return False
            conds += [_close(x, y) for x, y in zip(xa, xb)] + [_close(x, y) for x, y in zip(ya, yb)]
        elif isinstance(va, u.Quantity):
            conds.append(_num(va) == _num(vb.to(va.unit)))
        elif isinstance(va, Region):
            conds.append(_spec_eq(va, vb))
        elif hasattr(va, 'frame') and hasattr(va, 'ra'):
            conds.append(bool(np.all(va == vb)))
        else:
            conds.append(va == vb)
    conds.append(dict(a.meta) == dict(b.meta))
    conds.append(dict(a.visual) == dict(b.visual))
    return And(*conds)


def _off_edge(a, b):
    """every pair of positions is either within the tolerance computed from the smaller
    magnitude or beyond the tolerance computed from the larger one (so the operand order of
    np.allclose cannot matter)"""
    from regions import PixCoord
    from regions.core.core import Region
    conds = []
    for p in a._params:
        va, vb = getattr(a, p), getattr(b, p)
        if isinstance(va, PixCoord):
            for ca_, cb_ in ((va.x, vb.x), (va.y, vb.y)):
                for x, y in zip(np.asarray(ca_, dtype=object).reshape(-1), np.asarray(cb_, dtype=object).reshape(-1)):
                    d = abs(x - y)
                    lo = chk.Min(abs(x), abs(y))
                    hi = chk.Max(abs(x), abs(y))
                    conds.append(Or(d <= 1e-8 + 1e-5 * lo, d > 1e-8 + 1e-5 * hi))
        elif isinstance(va, Region):
            conds.append(_off_edge(va, vb))
    return And(*conds) if conds else True


def h_eq(kind, m):
    """two independent instances: == holds exactly per the documented rule; symmetric"""
    _shims(m)
    a = build(kind, m, 'a_')
    b = build(kind, m, 'b_')
    eab = a == b
    eba = b == a
    m.require('== is symmetric', Iff(eab, eba), key='C16:eq:asymmetric-tolerance')
    m.require('== is symmetric away from the edge of the position tolerance', Implies(_off_edge(a, b), Iff(eab, eba)))
    m.require('== holds exactly when class, parameters (positions within 1e-5 relative), meta and visual agree',
              Iff(eab, _spec_eq(a, b)))
    m.require('!= is the negation of ==', Iff(a != b, Not(eab)))


def h_eq_meta(kind, which, m):
    _shims(m)
    a = build(kind, m, '')
    kw = {'meta': {'label': 'L', 'tag': ['t1', 'x']}} if which == 'meta' else {'visual': {'color': 'blue', 'linewidth': 3}}
    b = a.copy(**kw)
    m.require(f'a differing {which} entry makes regions unequal', Not(a == b))
    m.require(f'a differing {which} entry makes regions unequal (symmetric)', Not(b == a))
    # every way in which two vocabularies-conforming dicts can differ: a missing key, an extra key whose value is None / '' / 0 /
    # an empty list (values that a lookup with a default cannot tell from absence), a None value against a real one, list order
    base = dict(getattr(a, which))
    if which == 'meta':
        variants = [{**base, 'comment': None}, {**base, 'comment': ''}, {**base, 'name': None}, {k: v for k, v in base.items() if k != 'tag'},
                    {**base, 'label': None}, {**base, 'tag': None}, {**base, 'tag': []}, {**base, 'tag': ['t1', 't0']}, {**base, 'tag': ['t0', 't1']},
                    {**base, 'include': None}, {**base, 'include': False}, {}]
    else:
        variants = [{**base, 'default_style': None}, {**base, 'linewidth': None}, {**base, 'linewidth': 0}, {**base, 'dashes': []},
                    {**base, 'color': None}, {**base, 'color': ''}, {**base, 'fontsize': None}, {}]
    for i, var in enumerate(variants):
        if var == base:
            continue
        c = a.copy(**{which: dict(var)})
        d = a.copy(**{which: dict(var)})
        m.require(f'{which} variant #{i} ({sorted(set(var) ^ set(base)) or "changed value"}) makes the regions unequal', Not(a == c))
        m.require(f'{which} variant #{i} makes the regions unequal (symmetric)', Not(c == a))
        m.require(f'two regions with the same {which} variant #{i} are equal', c == d)
    same = a.copy(**{which: dict(base)})
    m.require(f'a copy given an equal {which} dict is equal', And(a == same, same == a))


def h_eq_units(kind, m):
    """angles that differ only by their unit compare equal"""
    _shims(m)
    a = build(kind, m, '')
    ang = a.angle
    for unit in (u.rad, u.arcmin):
        b = a.copy(angle=ang.to(unit))
        m.require(f'equal after re-expressing the angle in {unit}', a == b)
        m.require(f'equal after re-expressing the angle in {unit} (symmetric)', b == a)


def h_eq_class(m):
    _shims(m)
    from regions import CirclePixelRegion, PointPixelRegion, PixCoord, EllipsePixelRegion, RectanglePixelRegion
    cx, cy = m.real('cx'), m.real('cy')
    w, h = m.pos('w'), m.pos('h')
    e = EllipsePixelRegion(PixCoord(cx, cy), w, h)
    r = RectanglePixelRegion(PixCoord(cx, cy), w, h)
    m.require('regions of different classes with the same parameters are unequal', Not(e == r))
    m.require('regions of different classes with the same parameters are unequal (symmetric)', Not(r == e))
    m.require('a region never equals a non-region', Not(e == 5) and Not(e == 'ellipse') and Not(e == None))  # noqa


def h_regions_list(m):
    """Regions: slices and copies are new lists (pure object-identity / order bookkeeping)"""
    from regions import Regions, CirclePixelRegion, PixCoord
    items = [CirclePixelRegion(PixCoord(float(i), 0.0), 1.0 + i) for i in range(6)]
    src = Regions(list(items))

    def same_as_start():
        return len(src) == 6 and all(a is b for a, b in zip(src.regions, items))
    sl = src[1:4]
    m.require('a slice is a Regions with the selected members', isinstance(sl, Regions) and
              [id(x) for x in sl.regions] == [id(x) for x in items[1:4]])
    m.require('an integer index returns the member itself', src[2] is items[2] and src[-1] is items[5])
    sl.append(items[0])
    sl.reverse()
    sl.pop()
    sl.insert(0, items[5])
    sl.extend([items[1]])
    m.require('editing a slice does not alter the source list', same_as_start())
    cp = src.copy()
    m.require('copy is a new Regions with a new list holding the same members',
              cp is not src and cp.regions is not src.regions and all(a is b for a, b in zip(cp.regions, items)))
    cp.pop(0)
    cp.reverse()
    cp.append(items[0])
    cp.extend(Regions([items[2]]))
    cp.insert(1, items[3])
    m.require('editing a copy does not alter the source list', same_as_start())
    for empty in (src[6:], Regions([]), src[3:3], Regions([]).copy()):
        empty.extend(src)
        empty.reverse()
        empty.append(items[0])
        empty.pop(0)
        m.require('extending an empty list/slice with another list does not alias it', same_as_start())
        empty2 = Regions([])
        empty2.extend(src.regions)
        empty2.reverse()
        m.require('extending an empty list with a raw list does not alias it', same_as_start())
    full = src[:]
    m.require('a full slice is a distinct list', full.regions is not src.regions and same_as_start())
    full.reverse()
    m.require('reversing a full slice leaves the source in order', same_as_start())
    m.require('len agrees', len(src) == 6 and len(sl) == 5)


def harnesses(tier):
    P = functools.partial
    q = tier == 'quick'
    hs = []
    for k in PIXKINDS + SKYKINDS:
        hs.append((f'copy/{k}', P(h_copy, k)))
    for k in (['circle', 'ellipse', 'rectangle', 'polygon', 'line', 'annulus-circle', 'sky-circle', 'sky-ellipse'] if q
              else [k for k in PIXKINDS + SKYKINDS if k not in ('sky-polygon', 'sky-point', 'sky-line', 'sky-text')]):
        hs.append((f'eq/{k}', P(h_eq, k)))
    for k in ('circle', 'polygon', 'sky-circle', 'compound'):
        hs.append((f'eq-meta/{k}', P(h_eq_meta, k, 'meta')))
        hs.append((f'eq-visual/{k}', P(h_eq_meta, k, 'visual')))
    for k in ('ellipse', 'rectangle', 'annulus-ellipse', 'sky-ellipse', 'regpoly'):
        hs.append((f'eq-units/{k}', P(h_eq_units, k)))
    hs.append(('eq-class', h_eq_class))
    hs.append(('regions-list', h_regions_list))
    return hs


def cases(tier, seed):
    return [(name, functools.partial(chk.run_case, 'C16', name, h, max_paths=4000)) for name, h in harnesses(tier)]


META = {
    'functions_encoded': ['regions.core.core.Region.copy/__eq__/__ne__', 'regions.core.metadata.Meta.copy',
                          'regions.core.pixcoord.PixCoord.copy/__eq__', 'regions.core.regions.Regions.__getitem__/copy/'
                          'append/extend/insert/pop/reverse', 'constructors + descriptors of every region class'],
    'bounds': {'quick': {'classes': 'all 12 pixel kinds + 8 sky kinds for copy; 8 kinds for two-instance equality',
                         'numeric parameters': 'unbounded reals (two independent instances: every field may differ)',
                         'polygon': 'triangle', 'Regions': 'one 6-element list, fixed edit sequences'},
               'thorough': {'classes': 'two-instance equality for all pixel kinds and 4 sky kinds'}},
    'outside_claim': ['sky coordinates are concrete and compared by astropy', 'Regions edit sequences are enumerated, not symbolic',
                      'the 1e-5 relative tolerance of positions is np.allclose semantics |a-b| <= 1e-8 + 1e-5|b| (asymmetric in b)'],
    'stubs': ['regions.core.pixcoord.np -> facade whose allclose works on symbolic payloads (same formula)',
              'astropy.units.Quantity.__new__: object dtype for symbolic payloads'],
    'assumptions': ['floats are interpreted as reals'],
}
