"""C06 pixel<->sky conversion round-trips and membership is conversion-invariant."""
import functools

import numpy as np
import z3
import astropy.units as u

from vf import chk, oracle as O, symx, kernels
from vf.chk import And, Or, Not, Implies, Iff, If
from vf.wcsstub import OpaqueWCS, LabelSky

INCS = [('absent', None), ('False', False), ('0', 0), ('True', True)]
KINDS = ['circle', 'ellipse', 'rectangle', 'polygon', 'polygon-origin', 'point', 'line', 'text', 'annulus-circle', 'annulus-ellipse',
         'annulus-rectangle', 'compound']


def _shims(m):
    if m.sym:
        m.shim('regions.core.pixcoord', 'np', kernels.NPFacade())
        kernels.install(m, ('pnpoly',))


def _metas(inc):
    from regions import RegionMeta, RegionVisual
    md = {'label': 'lab', 'tag': ['t1', 't2']}
    if inc is not None:
        md['include'] = inc
    return RegionMeta(md), RegionVisual({'color': 'red', 'linewidth': 2})


def build_pixel(kind, m, inc, pre='', aunit='deg'):
    import regions as R
    from regions import PixCoord
    meta, vis = _metas(inc)
    cx, cy = m.real(pre + 'cx'), m.real(pre + 'cy')
    dt = object if m.sym else float
    if kind == 'circle':
        return R.CirclePixelRegion(PixCoord(cx, cy), m.pos(pre + 'r'), meta=meta, visual=vis)
    if kind in ('ellipse', 'rectangle'):
        cls = R.EllipsePixelRegion if kind == 'ellipse' else R.RectanglePixelRegion
        return cls(PixCoord(cx, cy), m.pos(pre + 'w'), m.pos(pre + 'h'), angle=m.angle(pre + 'theta', aunit), meta=meta, visual=vis)
    if kind == 'polygon-origin':
        # vertices given relative to an origin (the constructor adds it once; .vertices are absolute)
        return R.PolygonPixelRegion(PixCoord(np.array([0.0, m.real(pre + 'ex1'), m.real(pre + 'ex2')], dtype=dt),
                                             np.array([0.0, m.real(pre + 'ey1'), m.real(pre + 'ey2')], dtype=dt)),
                                    meta=meta, visual=vis, origin=PixCoord(cx, cy))
    if kind == 'polygon':
        return R.PolygonPixelRegion(PixCoord(np.array([cx, cx + m.real(pre + 'ex1'), cx + m.real(pre + 'ex2')], dtype=dt),
                                             np.array([cy, cy + m.real(pre + 'ey1'), cy + m.real(pre + 'ey2')], dtype=dt)),
                                    meta=meta, visual=vis)
    if kind == 'point':
        return R.PointPixelRegion(PixCoord(cx, cy), meta=meta, visual=vis)
    if kind == 'text':
        from regions import RegionVisual
        vis2 = RegionVisual({'color': 'red', 'rotation': m.real(pre + 'textrot')})
        return R.TextPixelRegion(PixCoord(cx, cy), 'hello', meta=meta, visual=vis2)
    if kind == 'line':
        return R.LinePixelRegion(PixCoord(cx, cy), PixCoord(cx + m.real(pre + 'ex'), cy + m.real(pre + 'ey')), meta=meta, visual=vis)
    if kind == 'annulus-circle':
        r1 = m.pos(pre + 'r1')
        return R.CircleAnnulusPixelRegion(PixCoord(cx, cy), r1, r1 + m.pos(pre + 'dr'), meta=meta, visual=vis)
    if kind in ('annulus-ellipse', 'annulus-rectangle'):
        cls = R.EllipseAnnulusPixelRegion if kind == 'annulus-ellipse' else R.RectangleAnnulusPixelRegion
        w1, h1 = m.pos(pre + 'w1'), m.pos(pre + 'h1')
        return cls(PixCoord(cx, cy), w1, w1 + m.pos(pre + 'dw'), h1, h1 + m.pos(pre + 'dh'), angle=m.angle(pre + 'theta', 'deg'),
                   meta=meta, visual=vis)
    if kind == 'compound':
        import operator
        a = R.CirclePixelRegion(PixCoord(cx, cy), m.pos(pre + 'r'))
        b = R.RectanglePixelRegion(PixCoord(cx + m.real(pre + 'bx'), cy + m.real(pre + 'by')), m.pos(pre + 'w'), m.pos(pre + 'h'),
                                   angle=m.angle(pre + 'theta', 'deg'))
        return R.CompoundPixelRegion(a, b, operator.xor, meta=meta, visual=vis)
    raise ValueError(kind)


def _numeric_params(reg):
    """[(name, value)] of every numeric / positional parameter (recursing into compounds)"""
    from regions import PixCoord
    from regions.core.core import Region
    out = []
    for p in reg._params:
        v = getattr(reg, p)
        if isinstance(v, PixCoord):
            for a, b in zip(np.asarray(v.x, dtype=object).reshape(-1), np.asarray(v.y, dtype=object).reshape(-1)):
                out += [(p + '.x', a), (p + '.y', b)]
        elif isinstance(v, u.Quantity):
            w = v.to_value(u.deg)
            out.append((p, w[()] if isinstance(w, np.ndarray) else w))
        elif isinstance(v, Region):
            out += [(p + '/' + n, x) for n, x in _numeric_params(v)]
        elif isinstance(v, (str,)) or callable(v):
            out.append((p, v))
        else:
            out.append((p, v))
    return out


def _wcs_ready(m, w):
    """the probe displacement of the scale/angle helper is a non-zero vector (any invertible WCS)"""
    return w


def h_roundtrip_pix(kind, inc, m, aunit='deg'):
    """pixel -> sky -> pixel returns the same class, geometry, meta and visual"""
    _shims(m)
    reg = build_pixel(kind, m, inc, aunit=aunit)
    w = OpaqueWCS(m)
    before = _numeric_params(reg)
    sky = reg.to_sky(w)
    m.require('to_sky gives the sky counterpart class', type(sky).__name__ == type(reg).__name__.replace('Pixel', 'Sky'))
    back = sky.to_pixel(w)
    m.require('pixel -> sky -> pixel returns the same class', type(back) is type(reg))
    pa, pb = _numeric_params(reg), _numeric_params(back)
    m.require('same parameter list', [n for n, _ in pa] == [n for n, _ in pb])
    for (n, x), (_, y) in zip(pa, pb):
        if callable(x) or isinstance(x, str):
            m.require(f'{n} unchanged', x is y or x == y)
        else:
            m.require(f'{n} is restored by the round trip', chk.Eq(x, y))
    for obj, what in ((sky, 'sky'), (back, 'round-tripped')):
        m.require(f'{what} region carries the same meta (including the include flag)', dict(obj.meta) == dict(reg.meta))
        if kind != 'text':
            m.require(f'{what} region carries the same visual', dict(obj.visual) == dict(reg.visual))
        m.require(f'{what} meta/visual are copies, not aliases', obj.meta is not reg.meta and obj.visual is not reg.visual
                  and obj.meta.get('tag') is not reg.meta.get('tag'))
    if kind == 'text':
        m.require('text rotation is restored by the round trip', chk.Eq(back.visual['rotation'], reg.visual['rotation']))
        m.require('text content is kept', sky.text == 'hello' and back.text == 'hello')
    after = _numeric_params(reg)
    def same(a, b):
        if a is b:
            return True
        if isinstance(a, symx.SymReal) and isinstance(b, symx.SymReal):
            return z3.simplify(a.t).eq(z3.simplify(b.t))
        if symx.is_sym(a) or symx.is_sym(b):
            return False
        return a == b
    m.require('the input region is untouched', all(same(a, b) for (_, a), (_, b) in zip(before, after)))


def h_sky_contains(kind, inc, m, aunit='deg'):
    """a sky region answers membership exactly like its pixel image at the converted position"""
    from regions import PixCoord
    _shims(m)
    reg = build_pixel(kind, m, inc, aunit=aunit)
    w = OpaqueWCS(m)
    sky = reg.to_sky(w)
    qx, qy = m.real('qx'), m.real('qy')
    q = w.sky_at(qx, qy)
    ans_sky = sky.contains(q, w)
    ans_pix = sky.to_pixel(w).contains(PixCoord(qx, qy))
    if isinstance(ans_pix, np.ndarray) and ans_pix.size == 1:
        ans_pix = ans_pix.reshape(-1)[0]
    m.require('sky membership equals the membership of the converted position in the pixel image', Iff(ans_sky, ans_pix))
    if kind in ('point', 'line', 'text'):
        included = True if inc is None else bool(inc)
        m.require('point / line / text sky regions contain nothing (complement when excluded)', Iff(ans_sky, not included))


def h_sky_contains_history(kind, m):
    """the answer follows the CURRENT state: ask, change the region in place (include flag through meta, a size through its attribute),
    ask again -- the second answer must again be that of the (new) pixel image"""
    from regions import PixCoord
    _shims(m)
    reg = build_pixel(kind, m, None)
    w = OpaqueWCS(m)
    sky = reg.to_sky(w)
    qx, qy = m.real('qx'), m.real('qy')
    q = w.sky_at(qx, qy)
    sky.contains(q, w)                                   # a first query, which a caching implementation would remember
    sky.meta['include'] = False
    for step in ('after meta["include"] = False in place', 'after a size was re-assigned'):
        if step.startswith('after a size'):
            name = [p_ for p_ in sky._params if p_ not in ('center', 'vertices', 'start', 'end', 'angle', 'text')][0]
            setattr(sky, name, getattr(sky, name) * 2)
        ans_sky = sky.contains(q, w)
        ans_pix = sky.to_pixel(w).contains(PixCoord(qx, qy))
        if isinstance(ans_pix, np.ndarray) and ans_pix.size == 1:
            ans_pix = ans_pix.reshape(-1)[0]
        m.require(f'{step}: sky membership equals the membership in the current pixel image', Iff(ans_sky, ans_pix))


def h_real_wcs_roundtrip_executed(m):
    """EXECUTED with a real astropy.wcs.WCS (no symbolic input; supplementary to the solver-decided cases, whose WCS is an opaque
    stub): sky -> pixel -> sky returns the source region for centres in several frames, including non-default equinoxes, on an
    image in another frame"""
    from astropy.coordinates import SkyCoord, FK5, FK4
    from astropy.wcs import WCS
    import regions as R
    w = WCS(naxis=2)
    w.wcs.ctype = ['RA---TAN', 'DEC--TAN']
    w.wcs.crval = [40.0, 30.0]
    w.wcs.crpix = [300.0, 300.0]
    w.wcs.cdelt = [-0.001, 0.001]
    c_, s_ = np.cos(np.deg2rad(25.0)), np.sin(np.deg2rad(25.0))
    w.wcs.pc = [[c_, -s_], [s_, c_]]
    base = SkyCoord(40.05, 30.04, unit='deg', frame='icrs')
    for nm, fr, tol in (('icrs', 'icrs', 1e-6), ('galactic', 'galactic', 1e-6), ('fk5 J1975', FK5(equinox='J1975'), 1e-6), ('fk5 J2000', 'fk5', 1e-6)):
        c2 = base.transform_to(fr)
        centre = SkyCoord(c2.spherical.lon, c2.spherical.lat, frame=c2.frame.replicate_without_data())
        for reg in (R.CircleSkyRegion(centre, 12 * u.arcsec), R.EllipseSkyRegion(centre, 30 * u.arcsec, 12 * u.arcsec, angle=25 * u.deg),
                    R.CircleAnnulusSkyRegion(centre, 5 * u.arcsec, 9 * u.arcsec)):
            pix = reg.to_pixel(w)
            back = pix.to_sky(w)
            # the sky image is expressed in the frame of the image, so it is compared with the source through its pixel image
            # (same region on the sky <=> same pixel region) and through the centre separation on the sky
            again = back.to_pixel(w)
            ok = type(back) is type(reg) and back.center.separation(reg.center).arcsec < 1e-4
            ok = ok and abs(again.center.x - pix.center.x) < 1e-5 and abs(again.center.y - pix.center.y) < 1e-5
            for p_ in pix._params:
                a, b = getattr(pix, p_), getattr(again, p_)
                if p_ == 'angle':
                    ok = ok and abs(((b - a).to_value(u.deg) + 180) % 360 - 180) < 1e-4
                elif isinstance(a, (int, float)):
                    ok = ok and abs(b / a - 1) < tol
            for p_ in reg._params:
                a, b = getattr(reg, p_), getattr(back, p_)
                if isinstance(a, u.Quantity) and p_ != 'angle':
                    ok = ok and abs(b.to_value(a.unit) / a.value - 1) < tol
            m.require(f'{type(reg).__name__} centred in {nm}: sky -> pixel -> sky returns the source region', ok)
            second = reg.to_pixel(w).to_sky(w)
            m.require(f'{type(reg).__name__} centred in {nm}: a second conversion gives the same result', second == back)


def h_roundtrip_sky(kind, inc, m):
    """sky -> pixel -> sky with symbolic angular sizes"""
    import regions as R
    _shims(m)
    meta, vis = _metas(inc)
    w = OpaqueWCS(m)
    c = w.sky_at(m.real('cx'), m.real('cy'))
    q = lambda n: u.Quantity(m.pos(n), u.arcsec, dtype=object if m.sym else float)
    if kind == 'circle':
        reg = R.CircleSkyRegion(c, q('r'), meta=meta, visual=vis)
    elif kind in ('ellipse', 'rectangle'):
        cls = R.EllipseSkyRegion if kind == 'ellipse' else R.RectangleSkyRegion
        reg = cls(c, q('w'), q('h'), angle=m.angle('theta', 'deg'), meta=meta, visual=vis)
    elif kind == 'annulus-circle':
        r1 = m.pos('r1')
        reg = R.CircleAnnulusSkyRegion(c, u.Quantity(r1, u.arcsec, dtype=object if m.sym else float),
                                       u.Quantity(r1 + m.pos('dr'), u.arcsec, dtype=object if m.sym else float), meta=meta, visual=vis)
    elif kind in ('annulus-ellipse', 'annulus-rectangle'):
        cls = R.EllipseAnnulusSkyRegion if kind == 'annulus-ellipse' else R.RectangleAnnulusSkyRegion
        w1, h1 = m.pos('w1'), m.pos('h1')
        Q = lambda v: u.Quantity(v, u.arcsec, dtype=object if m.sym else float)
        reg = cls(c, Q(w1), Q(w1 + m.pos('dw')), Q(h1), Q(h1 + m.pos('dh')), angle=m.angle('theta', 'deg'), meta=meta, visual=vis)
    elif kind == 'point':
        reg = R.PointSkyRegion(c, meta=meta, visual=vis)
    elif kind == 'line':
        reg = R.LineSkyRegion(c, w.sky_at(m.real('ex'), m.real('ey')), meta=meta, visual=vis)
    elif kind == 'text':
        from regions import RegionVisual
        rot0 = m.real('textrot')
        vis = RegionVisual({'color': 'red', 'rotation': rot0})
        reg = R.TextSkyRegion(c, 'hello', meta=meta, visual=vis)
    else:
        raise ValueError(kind)
    pix = reg.to_pixel(w)
    back = pix.to_sky(w)
    m.require('sky -> pixel -> sky returns the same class', type(back) is type(reg))
    if kind == 'text':
        # the text rotation is re-expressed relative to the pixel axes and back: the sky region that was converted keeps its
        # own value, the round trip restores it, and converting the same object again gives the same pixel rotation
        m.require('text rotation is restored by sky -> pixel -> sky', chk.Eq(back.visual['rotation'], rot0))
        m.require('the converted sky region still carries its own rotation', chk.Eq(reg.visual['rotation'], rot0))
        pix2 = reg.to_pixel(w)
        m.require('converting the same sky text region twice gives the same pixel rotation',
                  chk.Eq(pix2.visual['rotation'], pix.visual['rotation']))
        m.require('text and colour are kept', back.text == 'hello' and pix.text == 'hello' and back.visual['color'] == 'red'
                  and set(back.visual) == {'color', 'rotation'} and dict(back.meta) == dict(reg.meta) and dict(pix.meta) == dict(reg.meta))
    for p in reg._params:
        a, b = getattr(reg, p), getattr(back, p)
        if isinstance(a, str):
            m.require(f'{p} unchanged', a == b)
        elif isinstance(a, u.Quantity):
            va, vb = a.to_value(u.arcsec if p != 'angle' else u.deg), b.to_value(u.arcsec if p != 'angle' else u.deg)
            va = va[()] if isinstance(va, np.ndarray) else va
            vb = vb[()] if isinstance(vb, np.ndarray) else vb
            m.require(f'{p} is restored by the round trip', chk.Eq(va, vb))
        else:
            xa, ya = w.world_to_pixel(a)
            xb, yb = w.world_to_pixel(b)
            m.require(f'{p} is restored by the round trip', And(chk.Eq(xa, xb), chk.Eq(ya, yb)))
    if kind != 'text':
        m.require('meta and visual survive (copies)', dict(back.meta) == dict(reg.meta) and dict(back.visual) == dict(reg.visual)
                  and back.meta is not reg.meta and dict(pix.meta) == dict(reg.meta))


def harnesses(tier):
    P = functools.partial
    q = tier == 'quick'
    hs = []
    for k in KINDS:
        for iname, inc in (INCS[:2] if q else INCS):
            hs.append((f'pix-sky-pix/{k}/include={iname}', P(h_roundtrip_pix, k, inc)))
            if k not in ('compound',) or True:
                hs.append((f'sky-contains/{k}/include={iname}', P(h_sky_contains, k, inc)))
    for k in ('ellipse', 'rectangle'):
        for au in ('rad', 'arcmin'):
            hs.append((f'pix-sky-pix/{k}/angle-unit={au}', P(h_roundtrip_pix, k, None, aunit=au)))
            hs.append((f'sky-contains/{k}/angle-unit={au}', P(h_sky_contains, k, None, aunit=au)))
    hs.append(('real-wcs/sky-pixel-sky (executed)', h_real_wcs_roundtrip_executed))
    for k in ('circle', 'ellipse'):
        hs.append((f'sky-contains/{k}/history', P(h_sky_contains_history, k)))
    for k in ('circle', 'ellipse', 'rectangle', 'annulus-circle', 'annulus-ellipse', 'annulus-rectangle', 'point', 'line', 'text'):
        for iname, inc in INCS[:2]:
            hs.append((f'sky-pix-sky/{k}/include={iname}', P(h_roundtrip_sky, k, inc)))
    return hs


def cases(tier, seed):
    return [(name, functools.partial(chk.run_case, 'C06', name, h, max_paths=600)) for name, h in harnesses(tier)]


META = {
    'functions_encoded': ['to_sky / to_pixel of every pixel and sky class (circle, ellipse, rectangle, polygon, point, line, text, three '
                          'annuli, compound)', 'regions._utils.wcs_helpers.pixel_scale_angle_at_skycoord', 'SkyRegion.contains and the '
                          'Point/Line/Text/Compound overrides', 'PixCoord.from_sky'],
    'bounds': {'quick': {'geometry': 'unbounded reals; angle as a unit-circle atom', 'include': ['absent', False],
                         'WCS': 'opaque invertible WCS: the probe displacement (hence local scale and north angle) is an arbitrary non-zero vector',
                         'polygon': 'triangle', 'compound': 'circle xor rectangle'},
               'thorough': {'include': ['absent', False, 0, True]}},
    'outside_claim': ['real astropy.wcs.WCS objects and celestial frames with attributes are used only by ONE EXECUTED case (real-wcs/sky-pixel-sky: an execution of the real library, not a solver verdict)', 'the WCS itself (projection, celestial frames, distortion): astropy.wcs is C code and SkyCoord cannot hold symbols; what is '
                      'verified is the arithmetic and bookkeeping of regions for EVERY local scale and orientation',
                      'the 1e-6 relative tolerance is implied by exact equality over the reals; float rounding is outside'],
    'stubs': ['OpaqueWCS (vf/wcsstub.py): pixel_to_world / world_to_pixel on labelled sky points; unknown sky points map to fresh symbolic pixels',
              'LabelSky(SkyCoord).to_pixel routes through the stub', 'regions.core.pixcoord.np facade'],
    'assumptions': ['floats are interpreted as reals', 'world_to_pixel(pixel_to_world(p)) == p (invertible WCS)'],
}
