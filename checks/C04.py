"""C04 bounding boxes enclose the region, are minimal, and confine the mask."""
import functools

import numpy as np
import astropy.units as u

from vf import chk, oracle as O, symx
from vf.chk import And, Or, Not, Implies, Iff, If, Sqrt

BB = 'regions.core.bounding_box'


def _shims(m):
    m.shim(BB, '_is_int', symx.sym_is_int)
    m.shim(BB, 'int', symx.sint)
    m.shim(BB, 'float', symx.sfloat)
    from vf import kernels as _k
    m.shim(BB, 'np', _k.NPFacade())


def _encloses(m, bb, px, py, inside, what='region'):
    e = bb.extent
    m.require(f'{what}: every member point lies inside the pixel-edge extent of the box',
              Implies(inside, And(e[0] <= px, px <= e[1], e[2] <= py, py <= e[3])))


def _minimal(m, bb, witnesses, what='region'):
    """witnesses: list of (x, y, in_closure) boundary points of the shape.  Each of the four
    border rows/columns of the box must be reached by a witness that belongs to the closure."""
    left = Or(*[And(ok, x < bb.ixmin + 0.5) for x, y, ok in witnesses])
    right = Or(*[And(ok, x > bb.ixmax - 1.5) for x, y, ok in witnesses])
    bottom = Or(*[And(ok, y < bb.iymin + 0.5) for x, y, ok in witnesses])
    top = Or(*[And(ok, y > bb.iymax - 1.5) for x, y, ok in witnesses])
    m.require(f'{what}: minimal - left border column is reached by the shape', left)
    m.require(f'{what}: minimal - right border column is reached by the shape', right)
    m.require(f'{what}: minimal - bottom border row is reached by the shape', bottom)
    m.require(f'{what}: minimal - top border row is reached by the shape', top)


def _valid(m, bb):
    m.require('box corners are ordered integers', And(bb.ixmin <= bb.ixmax, bb.iymin <= bb.iymax))


def _angle(m, aunit):
    return None if aunit == 'default' else m.angle('theta', aunit)


def h_circle(m):
    from regions import CirclePixelRegion, PixCoord
    _shims(m)
    cx, cy, r = m.real('cx'), m.real('cy'), m.pos('r')
    px, py = cx + m.real('px'), cy + m.real('py')
    bb = CirclePixelRegion(PixCoord(cx, cy), r).bounding_box
    _valid(m, bb)
    _encloses(m, bb, px, py, O.disk_in(px, py, cx, cy, r))
    W = [(cx - r, cy), (cx + r, cy), (cx, cy - r), (cx, cy + r)]
    _minimal(m, bb, [(x, y, Not(O.disk_out(x, y, cx, cy, r))) for x, y in W])


def h_ellipse(aunit, m):
    from regions import EllipsePixelRegion, PixCoord
    _shims(m)
    cx, cy, w, h = m.real('cx'), m.real('cy'), m.pos('w'), m.pos('h')
    px, py = cx + m.real('px'), cy + m.real('py')
    ang = _angle(m, aunit)
    kw = {} if ang is None else {'angle': ang}
    c, s = (1.0, 0.0) if ang is None else symx.angle_cs(ang)
    bb = EllipsePixelRegion(PixCoord(cx, cy), w, h, **kw).bounding_box
    _valid(m, bb)
    _encloses(m, bb, px, py, O.ellipse_in(px, py, cx, cy, w, h, c, s))
    # extreme points of the rotated ellipse (a, b semi-axes): tangent points of the
    # vertical / horizontal tangents
    a, b = w / 2, h / 2
    ex = Sqrt(a * a * c * c + b * b * s * s)
    ey = Sqrt(a * a * s * s + b * b * c * c)
    k = (a * a - b * b) * c * s
    W = [(cx - ex, cy - k / ex), (cx + ex, cy + k / ex), (cx - k / ey, cy - ey), (cx + k / ey, cy + ey)]
    _minimal(m, bb, [(x, y, Not(O.ellipse_out(x, y, cx, cy, w, h, c, s))) for x, y in W])


def _rect_corners(cx, cy, w, h, c, s):
    out = []
    for sx in (-1, 1):
        for sy in (-1, 1):
            out.append((cx + sx * (w / 2) * c - sy * (h / 2) * s, cy + sx * (w / 2) * s + sy * (h / 2) * c))
    return out


def h_rect(aunit, m):
    from regions import RectanglePixelRegion, PixCoord
    _shims(m)
    cx, cy, w, h = m.real('cx'), m.real('cy'), m.pos('w'), m.pos('h')
    px, py = cx + m.real('px'), cy + m.real('py')
    ang = _angle(m, aunit)
    kw = {} if ang is None else {'angle': ang}
    c, s = (1.0, 0.0) if ang is None else symx.angle_cs(ang)
    bb = RectanglePixelRegion(PixCoord(cx, cy), w, h, **kw).bounding_box
    _valid(m, bb)
    _encloses(m, bb, px, py, O.rect_in(px, py, cx, cy, w, h, c, s))
    _minimal(m, bb, [(x, y, Not(O.rect_out(x, y, cx, cy, w, h, c, s))) for x, y in _rect_corners(cx, cy, w, h, c, s)])


def h_polygon(n, m):
    from regions import PolygonPixelRegion, PixCoord
    _shims(m)
    cx, cy = m.real('vx0'), m.real('vy0')
    vx = [cx] + [cx + m.real(f'ex{i}') for i in range(1, n)]
    vy = [cy] + [cy + m.real(f'ey{i}') for i in range(1, n)]
    dt = object if m.sym else float
    bb = PolygonPixelRegion(PixCoord(np.array(vx, dtype=dt), np.array(vy, dtype=dt))).bounding_box
    _valid(m, bb)
    e = bb.extent
    # a polygon is inside the convex hull of its vertices: enclosure of every vertex suffices
    for k in range(n):
        m.require(f'vertex {k} lies inside the pixel-edge extent of the box',
                  And(e[0] <= vx[k], vx[k] <= e[1], e[2] <= vy[k], vy[k] <= e[3]))
    # and a probe convex combination of two vertices (an edge point)
    t = m.real('t', lo=0, hi=1)
    qx, qy = vx[0] + t * (vx[1] - vx[0]), vy[0] + t * (vy[1] - vy[0])
    m.require('edge point lies inside the extent', And(e[0] <= qx, qx <= e[1], e[2] <= qy, qy <= e[3]))
    _minimal(m, bb, [(x, y, True) for x, y in zip(vx, vy)])


def h_regpoly(n, aunit, m):
    from regions import RegularPolygonPixelRegion, PolygonPixelRegion, PixCoord
    _shims(m)
    cx, cy, rad = m.real('cx'), m.real('cy'), m.pos('rad')
    ang = _angle(m, aunit)
    kw = {} if ang is None else {'angle': ang}
    reg = RegularPolygonPixelRegion(PixCoord(cx, cy), n, rad, **kw)
    m.require('bounding_box is the polygon implementation applied to self.vertices',
              type(reg).bounding_box is PolygonPixelRegion.bounding_box)
    bb = reg.bounding_box
    _valid(m, bb)
    dt = object if m.sym else float
    vx = list(np.asarray(reg.vertices.x, dtype=dt))
    vy = list(np.asarray(reg.vertices.y, dtype=dt))
    e = bb.extent
    for k in range(n):
        m.require(f'vertex {k} lies inside the pixel-edge extent of the box',
                  And(e[0] <= vx[k], vx[k] <= e[1], e[2] <= vy[k], vy[k] <= e[3]))
    _minimal(m, bb, [(x, y, True) for x, y in zip(vx, vy)])


def h_line(m):
    from regions import LinePixelRegion, PixCoord
    _shims(m)
    sx, sy = m.real('sx'), m.real('sy')
    ex, ey = sx + m.real('ex'), sy + m.real('ey')
    bb = LinePixelRegion(PixCoord(sx, sy), PixCoord(ex, ey)).bounding_box
    _valid(m, bb)
    t = m.real('t', lo=0, hi=1)
    qx, qy = sx + t * (ex - sx), sy + t * (ey - sy)
    e = bb.extent
    m.require('every point of the segment lies inside the extent', And(e[0] <= qx, qx <= e[1], e[2] <= qy, qy <= e[3]))
    _minimal(m, bb, [(sx, sy, True), (ex, ey, True)])


def h_point(kind, m):
    from regions import PointPixelRegion, TextPixelRegion, PixCoord
    _shims(m)
    cx, cy = m.real('cx'), m.real('cy')
    reg = PointPixelRegion(PixCoord(cx, cy)) if kind == 'point' else TextPixelRegion(PixCoord(cx, cy), 'txt')
    bb = reg.bounding_box
    _valid(m, bb)
    e = bb.extent
    m.require('the position lies inside the extent', And(e[0] <= cx, cx <= e[1], e[2] <= cy, cy <= e[3]))
    _minimal(m, bb, [(cx, cy, True)])


def _same(a, b):
    return And(a.ixmin == b.ixmin, a.ixmax == b.ixmax, a.iymin == b.iymin, a.iymax == b.iymax)


def h_annulus(kind, aunit, m):
    from regions import (CircleAnnulusPixelRegion, EllipseAnnulusPixelRegion, RectangleAnnulusPixelRegion,
                         CirclePixelRegion, EllipsePixelRegion, RectanglePixelRegion, PixCoord)
    _shims(m)
    cx, cy = m.real('cx'), m.real('cy')
    px, py = cx + m.real('px'), cy + m.real('py')
    if kind == 'circle':
        r1, r2 = m.pos('r1'), m.pos('r2')
        m.assume(r1 < r2)
        reg = CircleAnnulusPixelRegion(PixCoord(cx, cy), r1, r2)
        outer = CirclePixelRegion(PixCoord(cx, cy), r2)
        inside = And(O.disk_in(px, py, cx, cy, r2), O.disk_out(px, py, cx, cy, r1))
        W = [(cx - r2, cy), (cx + r2, cy), (cx, cy - r2), (cx, cy + r2)]
        wit = [(x, y, Not(O.disk_out(x, y, cx, cy, r2))) for x, y in W]
    else:
        w1, w2, h1, h2 = m.pos('w1'), m.pos('w2'), m.pos('h1'), m.pos('h2')
        m.assume(w1 < w2)
        m.assume(h1 < h2)
        ang = _angle(m, aunit)
        kw = {} if ang is None else {'angle': ang}
        c, s = (1.0, 0.0) if ang is None else symx.angle_cs(ang)
        if kind == 'ellipse':
            reg = EllipseAnnulusPixelRegion(PixCoord(cx, cy), w1, w2, h1, h2, **kw)
            outer = EllipsePixelRegion(PixCoord(cx, cy), w2, h2, **kw)
            inside = And(O.ellipse_in(px, py, cx, cy, w2, h2, c, s), O.ellipse_out(px, py, cx, cy, w1, h1, c, s))
            wit = None
        else:
            reg = RectangleAnnulusPixelRegion(PixCoord(cx, cy), w1, w2, h1, h2, **kw)
            outer = RectanglePixelRegion(PixCoord(cx, cy), w2, h2, **kw)
            inside = And(O.rect_in(px, py, cx, cy, w2, h2, c, s), O.rect_out(px, py, cx, cy, w1, h1, c, s))
            wit = [(x, y, Not(O.rect_out(x, y, cx, cy, w2, h2, c, s))) for x, y in _rect_corners(cx, cy, w2, h2, c, s)]
    bb = reg.bounding_box
    _valid(m, bb)
    m.require('annulus box = box of its outer shape', _same(bb, outer.bounding_box))
    _encloses(m, bb, px, py, inside, 'annulus')
    if wit is not None:
        _minimal(m, bb, wit, 'annulus')


def h_compound(op, m):
    """compound box = union (hull) of the operand boxes; hence encloses every member point"""
    import operator
    from regions import CirclePixelRegion, RectanglePixelRegion, PixCoord
    _shims(m)
    cx, cy, r = m.real('cx'), m.real('cy'), m.pos('r')
    dx, dy, w, h = cx + m.real('dx'), cy + m.real('dy'), m.pos('w'), m.pos('h')
    a = CirclePixelRegion(PixCoord(cx, cy), r)
    b = RectanglePixelRegion(PixCoord(dx, dy), w, h)
    comp = {'or': a | b, 'and': a & b, 'xor': a ^ b}[op]
    bb = comp.bounding_box
    ba, bb2 = a.bounding_box, b.bounding_box
    m.require('compound box is the hull of the operand boxes',
              And(bb.ixmin == chk.Min(ba.ixmin, bb2.ixmin), bb.ixmax == chk.Max(ba.ixmax, bb2.ixmax),
                  bb.iymin == chk.Min(ba.iymin, bb2.iymin), bb.iymax == chk.Max(ba.iymax, bb2.iymax)))
    px, py = cx + m.real('px'), cy + m.real('py')
    ina = O.disk_in(px, py, cx, cy, r)
    inb = O.rect_in(px, py, dx, dy, w, h, 1.0, 0.0)
    _encloses(m, bb, px, py, Or(ina, inb), 'compound')


def h_reassign(kind, m):
    """the box follows the parameters: read the box, assign new parameters, read it again"""
    from regions import CirclePixelRegion, PolygonPixelRegion, EllipsePixelRegion, PixCoord
    _shims(m)
    dt = object if m.sym else float
    if kind == 'polygon':
        ax, ay = m.real('ax'), m.real('ay')
        reg = PolygonPixelRegion(PixCoord(np.array([ax, ax + 1, ax], dtype=dt), np.array([ay, ay, ay + 2], dtype=dt)))
        first = reg.bounding_box
        cx, cy = m.real('vx0'), m.real('vy0')
        vx = [cx] + [cx + m.real(f'ex{i}') for i in (1, 2)]
        vy = [cy] + [cy + m.real(f'ey{i}') for i in (1, 2)]
        reg.vertices = PixCoord(np.array(vx, dtype=dt), np.array(vy, dtype=dt))
        bb = reg.bounding_box
        e = bb.extent
        for k in range(3):
            m.require(f'after re-assignment: vertex {k} lies inside the extent of the box',
                      And(e[0] <= vx[k], vx[k] <= e[1], e[2] <= vy[k], vy[k] <= e[3]))
        _minimal(m, bb, [(x, y, True) for x, y in zip(vx, vy)], 'after re-assignment')
    elif kind == 'circle':
        reg = CirclePixelRegion(PixCoord(m.real('ax'), m.real('ay')), m.pos('ar'))
        first = reg.bounding_box
        cx, cy, r = m.real('cx'), m.real('cy'), m.pos('r')
        reg.center = PixCoord(cx, cy)
        reg.radius = r
        bb = reg.bounding_box
        px, py = cx + m.real('px'), cy + m.real('py')
        _encloses(m, bb, px, py, O.disk_in(px, py, cx, cy, r), 'after re-assignment')
        W = [(cx - r, cy), (cx + r, cy), (cx, cy - r), (cx, cy + r)]
        _minimal(m, bb, [(x, y, True) for x, y in W], 'after re-assignment')
    else:
        reg = EllipsePixelRegion(PixCoord(m.real('ax'), m.real('ay')), m.pos('aw'), m.pos('ah'))
        first = reg.bounding_box
        cx, cy, w, h = m.real('cx'), m.real('cy'), m.pos('w'), m.pos('h')
        ang = m.angle('theta', 'deg')
        reg.center, reg.width, reg.height, reg.angle = PixCoord(cx, cy), w, h, ang
        c, s = symx.angle_cs(ang)
        bb = reg.bounding_box
        px, py = cx + m.real('px'), cy + m.real('py')
        _encloses(m, bb, px, py, O.ellipse_in(px, py, cx, cy, w, h, c, s), 'after re-assignment')
    again = reg.bounding_box
    m.require('reading the box twice gives the same box', _same(bb, again))


def harnesses(tier):
    P = functools.partial
    q = tier == 'quick'
    aus = ['deg', 'rad'] if q else ['default', 'deg', 'rad', 'arcmin']
    hs = [('circle', h_circle), ('line', h_line), ('point', P(h_point, 'point')), ('text', P(h_point, 'text')),
          ('annulus-circle', P(h_annulus, 'circle', 'deg'))]
    for au in aus:
        hs += [(f'ellipse/angle={au}', P(h_ellipse, au)), (f'rectangle/angle={au}', P(h_rect, au)),
               (f'annulus-ellipse/angle={au}', P(h_annulus, 'ellipse', au)),
               (f'annulus-rectangle/angle={au}', P(h_annulus, 'rectangle', au))]
    for n in ([3] if q else [3, 4]):
        hs.append((f'polygon/n={n}', P(h_polygon, n)))
    for n in ([3, 4] if q else [3, 4, 6]):
        hs.append((f'regular-polygon/n={n}', P(h_regpoly, n, 'deg')))
    for kind in ('polygon', 'circle', 'ellipse'):
        hs.append((f'reassign/{kind}', P(h_reassign, kind)))
    for op in (['or', 'xor'] if q else ['or', 'and', 'xor']):
        hs.append((f'compound/{op}', P(h_compound, op)))
    return hs


def cases(tier, seed):
    return [(name, functools.partial(chk.run_case, 'C04', name, h, max_paths=3000)) for name, h in harnesses(tier)]


META = {
    'functions_encoded': ['bounding_box of Circle/Ellipse/Rectangle/Polygon/RegularPolygon/Line/Point/Text pixel regions',
                          'regions.shapes.annulus.AnnulusPixelRegion.bounding_box',
                          'regions.core.compound.CompoundPixelRegion.bounding_box',
                          'regions.core.bounding_box.RegionBoundingBox.from_float/extent/union/__or__'],
    'bounds': {'quick': {'polygon_vertices': [3], 'regular_polygon_n': [3, 4], 'angle_units': ['deg', 'rad'],
                         'continuous_parameters': 'unbounded reals'},
               'thorough': {'polygon_vertices': [3, 4], 'regular_polygon_n': [3, 4, 6],
                            'angle_units': ['default', 'deg', 'rad', 'arcmin'], 'continuous_parameters': 'unbounded reals'}},
    'outside_claim': ['rounding when an extreme of the shape is within an ulp of a pixel edge (reals model)',
                      'polygon enclosure is shown for the vertices and an arbitrary point of one edge (a polygon lies in '
                      'the convex hull of its vertices); mask confinement (mask.bbox is region.bounding_box, data.shape '
                      '== bbox.shape) is part of C02',
                      'minimality of the elliptical annulus box is implied by box == outer ellipse box + the ellipse case'],
    'stubs': ['regions.core.bounding_box._is_int / int accept integral symbols',
              'astropy.units.Quantity.__new__: object dtype for symbolic payloads'],
    'assumptions': ['floats are interpreted as the real numbers they denote',
                    'an angle is a (cos, sin) pair on the unit circle'],
}
