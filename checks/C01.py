"""C01 membership = geometric definition (DESIGN section 5, C01)."""
import functools

import numpy as np
import astropy.units as u

from vf import chk, oracle as O, symx
from vf.chk import And, Or, Not, Implies, Iff, If

INCLUDES = [('absent', None), ('True', True), ('False', False), ('1', 1), ('0', 0)]


def _meta(inc):
    from regions import RegionMeta
    return RegionMeta() if inc is None else RegionMeta({'include': inc})


def _expect(m, tag, res, inside, outside, inc):
    """res: code answer (SymBool/bool); inside/outside: strict oracle answers"""
    included = True if inc is None else bool(inc)
    member = res if included else Not(res)
    m.require(f'{tag}: strictly inside => member', Implies(inside, member))
    m.require(f'{tag}: strictly outside => not member', Implies(outside, Not(member)))


def h_circle(inc, query, m):
    from regions import CirclePixelRegion, PixCoord
    cx, cy = m.real('cx'), m.real('cy')
    r = m.pos('r')
    reg = CirclePixelRegion(PixCoord(cx, cy), r, meta=_meta(inc))
    for tag, pc_, pts in _queries(m, query):
        res = reg.contains(pc_)
        _check_shape(m, tag, res, pts, query)
        for k, (px, py) in enumerate(pts):
            rk = _elem(res, k, query)
            _expect(m, f'{tag}[{k}]', rk, O.disk_in(px, py, cx, cy, r), O.disk_out(px, py, cx, cy, r), inc)


def _queries(m, query):
    from regions import PixCoord
    if query == 'scalar':
        px, py = m.real('px'), m.real('py')
        return [('scalar', PixCoord(px, py), [(px, py)])]
    if query == 'vec2':
        xs = [m.real('px0'), m.real('px1')]
        ys = [m.real('py0'), m.real('py1')]
        return [('vec2', PixCoord(np.array(xs, dtype=object if m.sym else float),
                                  np.array(ys, dtype=object if m.sym else float)), list(zip(xs, ys)))]
    if query == 'mat12':
        xs = [m.real('px0'), m.real('px1')]
        ys = [m.real('py0'), m.real('py1')]
        dt = object if m.sym else float
        return [('mat12', PixCoord(np.array([xs], dtype=dt), np.array([ys], dtype=dt)), list(zip(xs, ys)))]
    if query == 'empty':
        return [('empty', PixCoord(np.zeros(0), np.zeros(0)), [])]
    if query == 'intscalar':
        px, py = m.integer('px'), m.integer('py')
        return [('intscalar', PixCoord(px, py), [(px, py)])]
    raise ValueError(query)


_SHAPES = {'scalar': (), 'vec2': (2,), 'mat12': (1, 2), 'empty': (0,), 'intscalar': ()}


def _check_shape(m, tag, res, pts, query):
    m.require(f'{tag}: result has the shape of the query', np.shape(res) == _SHAPES[query])
    if _SHAPES[query] == ():
        m.require(f'{tag}: scalar answer is a single truth value',
                  isinstance(res, (bool, np.bool_, symx.SymBool)))


def _elem(res, k, query):
    if _SHAPES[query] == ():
        return res
    return np.asarray(res).reshape(-1)[k]


def harnesses(tier):
    hs = []
    for iname, inc in INCLUDES:
        for q in (['scalar', 'vec2', 'empty'] if tier == 'quick' else ['scalar', 'vec2', 'mat12', 'empty', 'intscalar']):
            hs.append((f'circle/include={iname}/query={q}', functools.partial(h_circle, inc, q)))
    return hs


def cases(tier, seed):
    return [(name, functools.partial(chk.run_case, 'C01', name, h)) for name, h in harnesses(tier)]


META = {
    'functions_encoded': ['regions.shapes.circle.CirclePixelRegion.contains'],
    'bounds': {'quick': {}, 'thorough': {}},
    'outside_claim': ['positions within floating-point rounding of the boundary (reals model)'],
    'stubs': [],
    'assumptions': ['floats are interpreted as the real numbers they denote'],
}
