"""C01 membership = geometric definition (DESIGN section 5, C01)."""
import functools

import numpy as np
import astropy.units as u

from vf import chk, oracle as O, symx
from vf.chk import And, Or, Not, Implies, Iff, If

INCLUDES = [('absent', None), ('True', True), ('False', False), ('1', 1), ('0', 0)]


def _meta(inc):
    from regions import RegionMeta
    return RegionMeta() if inc is None else RegionMeta({'include': inc})


def _expect(m, tag, res, inside, outside, inc):
    """res: code answer (SymBool/bool); inside/outside: strict oracle answers"""
    included = True if inc is None else bool(inc)
    member = res if included else Not(res)
    m.require(f'{tag}: strictly inside => member', Implies(inside, member))
    m.require(f'{tag}: strictly outside => not member', Implies(outside, Not(member)))


def h_circle(inc, query, m):
    from regions import CirclePixelRegion, PixCoord
    cx, cy = m.real('cx'), m.real('cy')
    r = m.pos('r')
    reg = CirclePixelRegion(PixCoord(cx, cy), r, meta=_meta(inc))
    for tag, pc_, pts in _queries(m, query, cx, cy):
        res = reg.contains(pc_)
        _check_shape(m, tag, res, pts, query)
        for k, (px, py) in enumerate(pts):
            rk = _elem(res, k, query)
            _expect(m, f'{tag}[{k}]', rk, O.disk_in(px, py, cx, cy, r), O.disk_out(px, py, cx, cy, r), inc)


def _queries(m, query, ox=0.0, oy=0.0):
    """query coordinates; symbolic positions are parametrised as origin + offset (a bijection
    of the plane, so every position is covered) so that the solver works with differences"""
    from regions import PixCoord
    dt = object if m.sym else float
    X = lambda n: ox + m.real(n)
    Y = lambda n: oy + m.real(n)
    if query == 'scalar':
        px, py = X('px'), Y('py')
        return [('scalar', PixCoord(px, py), [(px, py)])]
    if query in ('vec2', 'mat12'):
        xs = [X('px0'), X('px1')]
        ys = [Y('py0'), Y('py1')]
        if query == 'vec2':
            return [('vec2', PixCoord(np.array(xs, dtype=dt), np.array(ys, dtype=dt)), list(zip(xs, ys)))]
        return [('mat12', PixCoord(np.array([xs], dtype=dt), np.array([ys], dtype=dt)), list(zip(xs, ys)))]
    if query == 'mat22F':
        # a 2x2 query that is NOT C-contiguous (transposed view)
        xs = [X('px0'), X('px1'), X('px2'), X('px3')]
        ys = [Y('py0'), Y('py1'), Y('py2'), Y('py3')]
        ax = np.array(xs, dtype=dt).reshape(2, 2).T
        ay = np.array(ys, dtype=dt).reshape(2, 2).T
        pts = [(ax[i, j], ay[i, j]) for i in range(2) for j in range(2)]
        return [('mat22F', PixCoord(ax, ay), pts)]
    if query == 'empty':
        return [('empty', PixCoord(np.zeros(0), np.zeros(0)), [])]
    if query == 'intscalar':
        px, py = m.integer('px'), m.integer('py')
        return [('intscalar', PixCoord(px, py), [(px, py)])]
    raise ValueError(query)


_SHAPES = {'scalar': (), 'vec2': (2,), 'mat12': (1, 2), 'mat22F': (2, 2), 'empty': (0,), 'intscalar': ()}


def _check_shape(m, tag, res, pts, query):
    m.require(f'{tag}: result has the shape of the query', np.shape(res) == _SHAPES[query])
    if _SHAPES[query] == ():
        m.require(f'{tag}: scalar answer is a single truth value',
                  isinstance(res, (bool, np.bool_, symx.SymBool)))


def _elem(res, k, query):
    if _SHAPES[query] == ():
        if isinstance(res, np.ndarray) and res.size == 1:
            return res.reshape(-1)[0]      # (the shape obligation reports the wrong shape)
        return res
    return np.asarray(res).reshape(-1)[k]



def _cs(angle_q):
    return symx.angle_cs(angle_q)


def _angle(m, aunit):
    if aunit == 'default':
        return None
    return m.angle('theta', aunit)


def h_ellipse(inc, query, aunit, m):
    from regions import EllipsePixelRegion, PixCoord
    cx, cy = m.real('cx'), m.real('cy')
    w, h = m.pos('w'), m.pos('h')
    ang = _angle(m, aunit)
    kw = {} if ang is None else {'angle': ang}
    reg = EllipsePixelRegion(PixCoord(cx, cy), w, h, meta=_meta(inc), **kw)
    c, s = (1.0, 0.0) if ang is None else _cs(ang)
    for tag, pc_, pts in _queries(m, query, cx, cy):
        res = reg.contains(pc_)
        _check_shape(m, tag, res, pts, query)
        for k, (px, py) in enumerate(pts):
            _expect(m, f'{tag}[{k}]', _elem(res, k, query), O.ellipse_in(px, py, cx, cy, w, h, c, s),
                    O.ellipse_out(px, py, cx, cy, w, h, c, s), inc)


def h_rect(inc, query, aunit, m):
    from regions import RectanglePixelRegion, PixCoord
    cx, cy = m.real('cx'), m.real('cy')
    w, h = m.pos('w'), m.pos('h')
    ang = _angle(m, aunit)
    kw = {} if ang is None else {'angle': ang}
    reg = RectanglePixelRegion(PixCoord(cx, cy), w, h, meta=_meta(inc), **kw)
    c, s = (1.0, 0.0) if ang is None else _cs(ang)
    for tag, pc_, pts in _queries(m, query, cx, cy):
        res = reg.contains(pc_)
        _check_shape(m, tag, res, pts, query)
        for k, (px, py) in enumerate(pts):
            _expect(m, f'{tag}[{k}]', _elem(res, k, query), O.rect_in(px, py, cx, cy, w, h, c, s),
                    O.rect_out(px, py, cx, cy, w, h, c, s), inc)


def _poly_shims(m):
    from vf import kernels
    kernels.install(m, ('pnpoly',))


def _off_boundary(px, py, vx, vy):
    n = len(vx)
    conds = []
    for i in range(n):
        j = (i + 1) % n
        cr = O._cross(vx[i], vy[i], vx[j], vy[j], px, py)
        lox, hix = chk.Min(vx[i], vx[j]), chk.Max(vx[i], vx[j])
        loy, hiy = chk.Min(vy[i], vy[j]), chk.Max(vy[i], vy[j])
        conds.append(Or(chk.lt(0, cr), chk.lt(cr, 0), chk.lt(px, lox), chk.lt(hix, px),
                        chk.lt(py, loy), chk.lt(hiy, py)))
    return And(*conds)


def _parity_up(px, py, vx, vy):
    """even-odd rule with an UPWARD ray and the half-open straddle rule (exact off the boundary)"""
    n = len(vx)
    par = False
    for i in range(n):
        j = (i + n - 1) % n
        strad = chk.Xor(vx[i] > px, vx[j] > px)
        d = vx[i] - vx[j]
        num = (vy[j] - py) * d + (vy[i] - vy[j]) * (px - vx[j])   # (y_edge(px) - py) * d
        above = Or(And(d > 0, num > 0), And(d < 0, num < 0))
        par = chk.Xor(par, And(strad, above))
    return par


def h_polygon(inc, query, n, m, origin=False):
    from regions import PolygonPixelRegion, PixCoord
    _poly_shims(m)
    cx, cy = m.real('vx0'), m.real('vy0')
    vx = [cx] + [cx + m.real(f'ex{i}') for i in range(1, n)]
    vy = [cy] + [cy + m.real(f'ey{i}') for i in range(1, n)]
    dt = object if m.sym else float
    if origin:
        # the same polygon given through the origin= keyword: vertices relative to an arbitrary origin (ox != oy in general)
        ox, oy = m.real('ox'), m.real('oy')
        reg = PolygonPixelRegion(PixCoord(np.array([x - ox for x in vx], dtype=dt), np.array([y - oy for y in vy], dtype=dt)),
                                 meta=_meta(inc), origin=PixCoord(ox, oy))
    else:
        reg = PolygonPixelRegion(PixCoord(np.array(vx, dtype=dt), np.array(vy, dtype=dt)), meta=_meta(inc))
    included = True if inc is None else bool(inc)
    for tag, pc_, pts in _queries(m, query, cx, cy):
        res = reg.contains(pc_)
        _check_shape(m, tag, res, pts, query)
        for k, (px, py) in enumerate(pts):
            rk = _elem(res, k, query)
            member = rk if included else Not(rk)
            off = _off_boundary(px, py, vx, vy)
            m.require(f'{tag}[{k}]: off the boundary => member == even-odd parity (upward ray)',
                      Implies(off, Iff(member, _parity_up(px, py, vx, vy))))
            if n == 3:
                m.require(f'{tag}[{k}]: triangle orientation test, inside',
                          Implies(O.triangle_in(px, py, vx, vy), member))
                m.require(f'{tag}[{k}]: triangle orientation test, outside',
                          Implies(O.triangle_out(px, py, vx, vy), Not(member)))


def h_regpoly(inc, query, n, aunit, direct, m):
    """regular polygon.  Compositional: (1) the vertices are the n points at distance `radius`
    from the centre, the first one at angle+90 deg, consecutive ones 2 pi/n apart;
    (2) contains() is the inherited polygon contains() applied to those vertices (method
    identity), whose correctness for arbitrary vertices is the polygon/n=... cases.
    For n = 4 the membership is additionally checked directly against the half-plane
    definition."""
    from regions import RegularPolygonPixelRegion, PolygonPixelRegion, PixCoord
    import math
    _poly_shims(m)
    cx, cy = m.real('cx'), m.real('cy')
    rad = m.pos('rad')
    ang = _angle(m, aunit)
    kw = {} if ang is None else {'angle': ang}
    reg = RegularPolygonPixelRegion(PixCoord(cx, cy), n, rad, meta=_meta(inc), **kw)
    a0 = (ang.to_value(u.rad) if ang is not None else 0.0)
    if isinstance(a0, np.ndarray):
        a0 = a0[()]
    m.require('contains is the polygon implementation applied to self.vertices',
              type(reg).contains is PolygonPixelRegion.contains and isinstance(reg, PolygonPixelRegion))
    vx = [x for x in np.asarray(reg.vertices.x, dtype=object if m.sym else float)]
    vy = [y for y in np.asarray(reg.vertices.y, dtype=object if m.sym else float)]
    m.require('n vertices', len(vx) == n and len(vy) == n)
    exact = abs(round(12 / n * 2) - 12 / n * 2) < 1e-12     # 2 pi / n is a multiple of pi/12
    tol = 0.0 if (exact and ang is not None and m.sym) else 1e-9   # concrete angles: float trig values
    ca, sa = _cs_const_plus(a0, 0.0)
    c1, s1 = _cs_const_plus(0.0, 2 * math.pi / n)
    def close(a, b):
        if tol == 0.0:
            return a == b
        return And(a - b <= tol * rad, b - a <= tol * rad)
    m.require('vertex 0 is at angle + 90 deg', And(close(vx[0] - cx, -rad * sa), close(vy[0] - cy, rad * ca)))
    for k in range(n):
        kn = (k + 1) % n
        dx, dy = vx[k] - cx, vy[k] - cy
        m.require(f'vertex {kn} = vertex {k} rotated by 2 pi/n about the centre',
                  And(close(vx[kn] - cx, c1 * dx - s1 * dy), close(vy[kn] - cy, s1 * dx + c1 * dy)))
    if not direct:
        return
    inr_c, _ = _cs_const_plus(0.0, math.pi / n)           # cos(pi/n)
    for tag, pc_, pts in _queries(m, query, cx, cy):
        res = reg.contains(pc_)
        _check_shape(m, tag, res, pts, query)
        for k, (px, py) in enumerate(pts):
            ins, outs = [], []
            for e in range(n):
                nc, ns = _cs_const_plus(a0, math.pi / 2 + 2 * math.pi * e / n + math.pi / n)
                proj = (px - cx) * nc + (py - cy) * ns
                ins.append(chk.lt(proj, rad * inr_c))
                outs.append(chk.lt(rad * inr_c, proj))
            _expect(m, f'{tag}[{k}]', _elem(res, k, query), And(*ins), Or(*outs), inc)


def _cs_const_plus(a, const):
    """(cos, sin) of a + const where a is a symbolic (SymReal, radians) or float angle"""
    import math
    if isinstance(a, symx.SymReal):
        c, s = symx.cs_of((a + const).t)
        return symx.SymReal(c), symx.SymReal(s)
    if symx.CTX is not None:
        c, s = symx.cs_of(symx.lift(a + const))
        return symx.SymReal(c), symx.SymReal(s)
    return math.cos(a + const), math.sin(a + const)


def h_annulus(kind, inc, query, aunit, m):
    from regions import (CircleAnnulusPixelRegion, EllipseAnnulusPixelRegion, RectangleAnnulusPixelRegion,
                         PixCoord)
    cx, cy = m.real('cx'), m.real('cy')
    if kind == 'circle':
        r1, r2 = m.pos('r1'), m.pos('r2')
        m.assume(r1 < r2)
        reg = CircleAnnulusPixelRegion(PixCoord(cx, cy), r1, r2, meta=_meta(inc))
        fin = lambda px, py: And(O.disk_in(px, py, cx, cy, r2), O.disk_out(px, py, cx, cy, r1))
        fout = lambda px, py: Or(O.disk_out(px, py, cx, cy, r2), O.disk_in(px, py, cx, cy, r1))
    else:
        w1, w2, h1, h2 = m.pos('w1'), m.pos('w2'), m.pos('h1'), m.pos('h2')
        m.assume(w1 < w2)
        m.assume(h1 < h2)
        ang = _angle(m, aunit)
        kw = {} if ang is None else {'angle': ang}
        c, s = (1.0, 0.0) if ang is None else _cs(ang)
        cls = EllipseAnnulusPixelRegion if kind == 'ellipse' else RectangleAnnulusPixelRegion
        reg = cls(PixCoord(cx, cy), w1, w2, h1, h2, meta=_meta(inc), **kw)
        fi, fo = (O.ellipse_in, O.ellipse_out) if kind == 'ellipse' else (O.rect_in, O.rect_out)
        fin = lambda px, py: And(fi(px, py, cx, cy, w2, h2, c, s), fo(px, py, cx, cy, w1, h1, c, s))
        fout = lambda px, py: Or(fo(px, py, cx, cy, w2, h2, c, s), fi(px, py, cx, cy, w1, h1, c, s))
    for tag, pc_, pts in _queries(m, query, cx, cy):
        res = reg.contains(pc_)
        _check_shape(m, tag, res, pts, query)
        for k, (px, py) in enumerate(pts):
            _expect(m, f'{tag}[{k}]', _elem(res, k, query), fin(px, py), fout(px, py), inc)


def h_empty(kind, inc, query, m):
    """points, lines and text contain nothing"""
    from regions import PointPixelRegion, LinePixelRegion, TextPixelRegion, PixCoord
    cx, cy = m.real('cx'), m.real('cy')
    if kind == 'point':
        reg = PointPixelRegion(PixCoord(cx, cy), meta=_meta(inc))
    elif kind == 'text':
        reg = TextPixelRegion(PixCoord(cx, cy), 'label', meta=_meta(inc))
    else:
        reg = LinePixelRegion(PixCoord(cx, cy), PixCoord(m.real('ex'), m.real('ey')), meta=_meta(inc))
    included = True if inc is None else bool(inc)
    for tag, pc_, pts in _queries(m, query, cx, cy):
        res = reg.contains(pc_)
        _check_shape(m, tag, res, pts, query)
        for k, (px, py) in enumerate(pts):
            rk = _elem(res, k, query)
            m.require(f'{tag}[{k}]: contains nothing (complement when excluded)',
                      Iff(rk, not included))


def h_in_operator(kind, inc, m):
    """`coord in region`: scalar only, same answer as contains()"""
    from regions import CirclePixelRegion, RectanglePixelRegion, PixCoord
    cx, cy = m.real('cx'), m.real('cy')
    px, py = m.real('px'), m.real('py')
    if kind == 'circle':
        r = m.pos('r')
        reg = CirclePixelRegion(PixCoord(cx, cy), r, meta=_meta(inc))
        fin, fout = O.disk_in(px, py, cx, cy, r), O.disk_out(px, py, cx, cy, r)
    else:
        w, h = m.pos('w'), m.pos('h')
        reg = RectanglePixelRegion(PixCoord(cx, cy), w, h, meta=_meta(inc))
        fin, fout = O.rect_in(px, py, cx, cy, w, h, 1.0, 0.0), O.rect_out(px, py, cx, cy, w, h, 1.0, 0.0)
    ans = PixCoord(px, py) in reg
    m.require('in-operator yields a plain bool', isinstance(ans, bool))
    _expect(m, 'in', ans, fin, fout, inc)
    dt = object if m.sym else float
    try:
        PixCoord(np.array([px, px], dtype=dt), np.array([py, py], dtype=dt)) in reg
        m.require('in-operator rejects array coordinates', False)
    except ValueError:
        m.require('in-operator rejects array coordinates', True)

def harnesses(tier):
    P = functools.partial
    hs = []
    q = tier == 'quick'
    queries = ['scalar', 'vec2', 'empty'] if q else ['scalar', 'vec2', 'mat12', 'empty', 'intscalar']
    aunits = ['deg', 'rad'] if q else ['default', 'deg', 'rad', 'arcmin', 'arcsec']
    for iname, inc in INCLUDES:
        for qy in queries:
            hs.append((f'circle/include={iname}/query={qy}', P(h_circle, inc, qy)))
            hs.append((f'point/include={iname}/query={qy}', P(h_empty, 'point', inc, qy)))
            hs.append((f'line/include={iname}/query={qy}', P(h_empty, 'line', inc, qy)))
            hs.append((f'text/include={iname}/query={qy}', P(h_empty, 'text', inc, qy)))
            hs.append((f'annulus-circle/include={iname}/query={qy}', P(h_annulus, 'circle', inc, qy, 'deg')))
            for au in aunits:
                if q and (au == 'rad') != (qy == 'scalar') and iname not in ('absent', 'False'):
                    continue
                hs.append((f'ellipse/include={iname}/query={qy}/angle={au}', P(h_ellipse, inc, qy, au)))
                hs.append((f'rectangle/include={iname}/query={qy}/angle={au}', P(h_rect, inc, qy, au)))
                if qy in ('scalar', 'vec2'):
                    hs.append((f'annulus-ellipse/include={iname}/query={qy}/angle={au}',
                               P(h_annulus, 'ellipse', inc, qy, au)))
                    hs.append((f'annulus-rectangle/include={iname}/query={qy}/angle={au}',
                               P(h_annulus, 'rectangle', inc, qy, au)))
        hs.append((f'in-operator/circle/include={iname}', P(h_in_operator, 'circle', inc)))
        hs.append((f'in-operator/rectangle/include={iname}', P(h_in_operator, 'rectangle', inc)))
    polyn = [3, 4, 5]       # n = 6 ran into solver timeouts (2 of 2 cases) even on an idle machine: outside the claim
    for n in polyn:
        for iname, inc in (INCLUDES if n <= 4 else INCLUDES[:1] + INCLUDES[2:3]):
            for qy in (['scalar', 'vec2', 'empty'] if n <= 4 else ['scalar']):
                hs.append((f'polygon/n={n}/include={iname}/query={qy}', P(h_polygon, inc, qy, n)))
    for iname, inc in INCLUDES[:1] + INCLUDES[2:3]:
        hs.append((f'polygon/n=3/include={iname}/query=scalar/origin-keyword', P(h_polygon, inc, 'scalar', 3, origin=True)))
        hs.append((f'polygon/n=3/include={iname}/query=mat22F', P(h_polygon, inc, 'mat22F', 3)))
        hs.append((f'circle/include={iname}/query=mat22F', P(h_circle, inc, 'mat22F')))
        hs.append((f'rectangle/include={iname}/query=mat22F/angle=deg', P(h_rect, inc, 'mat22F', 'deg')))
    for n in ([3, 4] if q else [3, 4, 6, 8, 12]):
        for iname, inc in INCLUDES[:1] + INCLUDES[2:3]:
            for au in (['deg'] if q else ['default', 'deg', 'rad']):
                hs.append((f'regular-polygon/n={n}/include={iname}/query=scalar/angle={au}',
                           P(h_regpoly, inc, 'scalar', n, au, n == 4 and au != 'default')))
    return hs


def cases(tier, seed):
    from vf import pyxsym
    out = [(name, functools.partial(chk.run_case, 'C01', name, h)) for name, h in harnesses(tier)]
    out.append(('translation-validation/pnpoly', functools.partial(chk.tv_case, 'C01', ('pnpoly',), seed)))
    return out


META = {
    'functions_encoded': [
        'regions.shapes.circle.CirclePixelRegion.contains', 'regions.shapes.ellipse.EllipsePixelRegion.contains',
        'regions.shapes.rectangle.RectanglePixelRegion.contains', 'regions.shapes.polygon.PolygonPixelRegion.contains',
        'regions.shapes.polygon.RegularPolygonPixelRegion.__init__/_calc_vertices/contains',
        'regions.shapes.annulus.AnnulusPixelRegion.contains (+ _compound_region, _inner_region, _outer_region)',
        'regions.core.compound.CompoundPixelRegion.contains', 'regions.shapes.point.PointPixelRegion.contains',
        'regions.shapes.line.LinePixelRegion.contains', 'regions.shapes.text.TextPixelRegion (inherited contains)',
        'regions.core.core.PixelRegion.__contains__', 'regions.core.pixcoord.PixCoord.__init__/separation/_validate',
        'regions/_geometry/pnpoly.pyx: points_in_polygon, point_in_polygon (interpreted from source)',
        'regions.core.attributes descriptors (validation on construction)'],
    'bounds': {
        'quick': {'polygon_vertices': '3..5', 'regular_polygon_n': [3, 4], 'query_containers': ['scalar', '(2,)', '(0,)'],
                  'include_flags': ['absent', True, False, 1, 0], 'angle_units': ['deg', 'rad'],
                  'continuous_parameters': 'unbounded reals (centre, sizes > 0, angle as a point on the unit circle, query position)'},
        'thorough': {'polygon_vertices': '3..5 (n = 6: solver timeout)', 'regular_polygon_n': [3, 4, 6, 8, 12],
                     'query_containers': ['scalar', '(2,)', '(1,2)', '(0,)', 'int scalar'],
                     'include_flags': ['absent', True, False, 1, 0],
                     'angle_units': ['default', 'deg', 'rad', 'arcmin', 'arcsec'],
                     'continuous_parameters': 'unbounded reals'}},
    'outside_claim': ['positions within floating-point rounding of the boundary (floats are modelled as reals)',
                      'query arrays of rank > 2 and more than 2 symbolic elements',
                      'polygons with more vertices than the bound; regular polygons whose angles are not multiples of pi/12',
                      'sizes spanning 9 orders of magnitude are covered as unbounded reals, not as floats'],
    'stubs': ['regions.shapes.polygon.np -> facade keeping object dtype for symbolic payloads',
              'regions.shapes.polygon.points_in_polygon -> pyxsym interpretation of pnpoly.pyx (translation-validated '
              'against the compiled extension in this run)',
              'astropy.units.Quantity.__new__: default dtype becomes object iff the payload is symbolic'],
    'assumptions': ['floats are interpreted as the real numbers they denote',
                    'an angle is represented by a (cos, sin) pair on the unit circle; deg/rad/arcmin/arcsec conversion '
                    'factors are snapped to pi/180 etc.',
                    'the compiled pnpoly extension agrees with pnpoly.pyx (checked on the seeded vectors of the '
                    'translation-validation case)'],
}
