"""C18 the matplotlib artist of a region depicts the region."""
import functools
import math
import sys
import types

import numpy as np
import z3
import astropy.units as u

from vf import chk, oracle as O, symx, kernels
from vf.chk import And, Or, Not, Implies, Iff, If


# --------------------------------------------------------------------------
# recording stand-ins for the matplotlib classes (symbolic mode)
# --------------------------------------------------------------------------
class _Rec:
    def __init__(self, *args, **kwargs):
        self.args, self.kwargs = args, kwargs


class Circle(_Rec):
    def __init__(self, xy, radius=5, **kw):
        super().__init__(**kw)
        self.center, self.radius = tuple(xy), radius

    def get_path(self):
        return StubPath(self._verts(), ['M'] + ['L'] * 3 + ['Z'])

    def _verts(self):
        cx, cy = self.center
        r = self.radius
        return [(cx + r, cy), (cx, cy + r), (cx - r, cy), (cx, cy - r), (cx + r, cy)]

    def get_transform(self):
        return _Identity()


class Ellipse(_Rec):
    def __init__(self, xy, width, height, angle=0, **kw):
        super().__init__(**kw)
        self.center, self.width, self.height, self.angle = tuple(xy), width, height, angle

    def get_path(self):
        cx, cy = self.center
        c, s = deg_cs(self.angle)
        a, b = self.width / 2, self.height / 2
        pts = [(a, 0), (0, b), (-a, 0), (0, -b), (a, 0)]
        return StubPath([(cx + c * x - s * y, cy + s * x + c * y) for x, y in pts], ['M'] + ['L'] * 3 + ['Z'])

    def get_transform(self):
        return _Identity()


class Rectangle(_Rec):
    def __init__(self, xy, width, height, angle=0.0, rotation_point='xy', **kw):
        super().__init__(**kw)
        self.xy, self.width, self.height, self.angle, self.rotation_point = tuple(xy), width, height, angle, rotation_point

    def get_xy(self):
        return self.xy

    def get_path(self):
        x0, y0 = self.xy
        c, s = deg_cs(self.angle)
        pts = [(0, 0), (self.width, 0), (self.width, self.height), (0, self.height), (0, 0)]
        return StubPath([(x0 + c * x - s * y, y0 + s * x + c * y) for x, y in pts], ['M'] + ['L'] * 3 + ['Z'])

    def get_transform(self):
        return _Identity()


class Polygon(_Rec):
    def __init__(self, xy, closed=True, **kw):
        super().__init__(**kw)
        self.xy = np.asarray(xy, dtype=object)

    def get_xy(self):
        return self.xy


class Arrow(_Rec):
    def __init__(self, x, y, dx, dy, width=1.0, **kw):
        super().__init__(**kw)
        self.x, self.y, self.dx, self.dy, self.width = x, y, dx, dy, width


class PathPatch(_Rec):
    def __init__(self, path, **kw):
        super().__init__(**kw)
        self.path = path

    def get_path(self):
        return self.path


class Line2D(_Rec):
    def __init__(self, xdata, ydata, **kw):
        super().__init__(**kw)
        self.xdata, self.ydata = list(xdata), list(ydata)

    def get_xdata(self):
        return self.xdata

    def get_ydata(self):
        return self.ydata


class Text(_Rec):
    def __init__(self, x=0, y=0, text='', **kw):
        super().__init__(**kw)
        self.x, self.y, self.text = x, y, text

    def get_position(self):
        return (self.x, self.y)

    def get_text(self):
        return self.text


class StubPath:
    def __init__(self, vertices, codes=None, *a, **k):
        self.vertices = np.asarray([list(v) for v in vertices], dtype=object)
        self.codes = np.asarray(codes if codes is not None else ['L'] * len(self.vertices), dtype=object)


class _Identity:
    def transform_path(self, p):
        return p


def _install(m, always=False):
    """make `from matplotlib.patches import X` (done inside as_artist) pick the recorders"""
    if not m.sym and not always:
        return
    import matplotlib  # noqa
    fake_p = types.ModuleType('matplotlib.patches')
    for cls in (Circle, Ellipse, Rectangle, Polygon, Arrow, PathPatch):
        setattr(fake_p, cls.__name__, cls)
    fake_l = types.ModuleType('matplotlib.lines')
    fake_l.Line2D = Line2D
    fake_t = types.ModuleType('matplotlib.text')
    fake_t.Text = Text
    fake_path = types.ModuleType('matplotlib.path')
    fake_path.Path = StubPath
    import matplotlib.patches, matplotlib.lines, matplotlib.text, matplotlib.path  # noqa
    for name, mod in (('matplotlib.patches', fake_p), ('matplotlib.lines', fake_l), ('matplotlib.text', fake_t),
                      ('matplotlib.path', fake_path)):
        m.shim(sys.modules, '__dummy__', None) if False else None
        _SwapModule(m, name, mod)
    if m.sym:
        m.shim('regions.core.compound', 'np', kernels.NPFacade())
        m.shim('regions.core.pixcoord', 'np', kernels.NPFacade())


class _SwapModule:
    """swap sys.modules[name] (and the attribute on the parent package) for this run"""
    def __init__(self, m, name, mod):
        import matplotlib
        old = sys.modules.get(name)
        sys.modules[name] = mod
        attr = name.split('.')[1]
        old_attr = getattr(matplotlib, attr, None)
        setattr(matplotlib, attr, mod)

        class _Restore:
            pass
        m._shims.append((_ModProxy(name, old, matplotlib, attr, old_attr), 'restore', None, None))


class _ModProxy:
    def __init__(self, name, old, pkg, attr, old_attr):
        self.name, self.old, self.pkg, self.attr, self.old_attr = name, old, pkg, attr, old_attr
        self.__dict__['__restore__'] = True

    def __setattr__(self, k, v):
        if k == 'restore':
            if self.old is not None:
                sys.modules[self.name] = self.old
            if self.old_attr is not None:
                setattr(self.pkg, self.attr, self.old_attr)
            return
        object.__setattr__(self, k, v)

    def __delattr__(self, k):
        return


def deg_cs(angle_deg):
    """(cos, sin) of an angle given in degrees as a plain number or symbol"""
    v = angle_deg
    if isinstance(v, np.ndarray) and v.shape == ():
        v = v[()]
    if isinstance(v, symx.SymReal):
        c, s = symx.cs_of(v.t * symx.PI / 180)
        return symx.SymReal(c), symx.SymReal(s)
    return math.cos(math.radians(float(v))), math.sin(math.radians(float(v)))


# --------------------------------------------------------------------------
# accessors that work for the recorders and for the real matplotlib classes
# --------------------------------------------------------------------------
def _kw(art):
    if isinstance(art, _Rec):
        return dict(art.kwargs)
    return None


def _origin(m):
    return m.real('ox'), m.real('oy')


def _angle(m, aunit):
    return None if aunit == 'default' else m.angle('theta', aunit)


def h_circle(m):
    from regions import CirclePixelRegion, PixCoord
    _install(m)
    cx, cy, r = m.real('cx'), m.real('cy'), m.pos('r')
    ox, oy = _origin(m)
    art = CirclePixelRegion(PixCoord(cx, cy), r).as_artist(origin=(ox, oy))
    m.require('artist is a Circle patch', type(art).__name__ == 'Circle')
    acx, acy = art.center
    px, py = cx + m.real('px'), cy + m.real('py')
    inside_patch = O.disk_in(px - ox, py - oy, acx, acy, art.radius)
    outside_patch = O.disk_out(px - ox, py - oy, acx, acy, art.radius)
    m.require('points strictly inside the region are inside the patch', Implies(O.disk_in(px, py, cx, cy, r), Not(outside_patch)))
    m.require('points strictly outside the region are outside the patch', Implies(O.disk_out(px, py, cx, cy, r), Not(inside_patch)))
    m.require('patch centre = region centre - origin, radius = region radius',
              And(acx == cx - ox, acy == cy - oy, art.radius == r))


def h_ellipse(aunit, m):
    from regions import EllipsePixelRegion, PixCoord
    _install(m)
    cx, cy, w, h = m.real('cx'), m.real('cy'), m.pos('w'), m.pos('h')
    ox, oy = _origin(m)
    ang = _angle(m, aunit)
    kw = {} if ang is None else {'angle': ang}
    c, s = (1.0, 0.0) if ang is None else symx.angle_cs(ang)
    art = EllipsePixelRegion(PixCoord(cx, cy), w, h, **kw).as_artist(origin=(ox, oy))
    m.require('artist is an Ellipse patch (not a subclass with other semantics)', type(art).__name__ == 'Ellipse')
    acx, acy = art.center
    pc, ps = deg_cs(art.angle)
    px, py = cx + m.real('px'), cy + m.real('py')
    qx, qy = px - ox, py - oy
    m.require('strictly inside the region => not outside the patch outline',
              Implies(O.ellipse_in(px, py, cx, cy, w, h, c, s), Not(O.ellipse_out(qx, qy, acx, acy, art.width, art.height, pc, ps))))
    m.require('strictly outside the region => not inside the patch outline',
              Implies(O.ellipse_out(px, py, cx, cy, w, h, c, s), Not(O.ellipse_in(qx, qy, acx, acy, art.width, art.height, pc, ps))))
    m.require('patch parameters: centre - origin, full axes, angle in degrees',
              And(acx == cx - ox, acy == cy - oy, art.width == w, art.height == h, pc == c, ps == s))


def h_rect(aunit, m):
    from regions import RectanglePixelRegion, PixCoord
    _install(m)
    cx, cy, w, h = m.real('cx'), m.real('cy'), m.pos('w'), m.pos('h')
    ox, oy = _origin(m)
    ang = _angle(m, aunit)
    kw = {} if ang is None else {'angle': ang}
    c, s = (1.0, 0.0) if ang is None else symx.angle_cs(ang)
    reg = RectanglePixelRegion(PixCoord(cx, cy), w, h, **kw)
    art = reg.as_artist(origin=(ox, oy))
    m.require('artist is a Rectangle patch', type(art).__name__ == 'Rectangle')
    m.require('rectangle rotates about its anchor corner', getattr(art, 'rotation_point', 'xy') == 'xy')
    ax, ay = art.get_xy()
    aw, ah = (art.width, art.height) if isinstance(art, _Rec) else (art.get_width(), art.get_height())
    pc, ps = deg_cs(art.angle)
    # a point q is inside the patch iff its coordinates in the anchor frame are within [0,w]x[0,h]
    px, py = cx + m.real('px'), cy + m.real('py')
    qx, qy = px - ox - ax, py - oy - ay
    uu, vv = pc * qx + ps * qy, -ps * qx + pc * qy
    in_patch = And(chk.lt(0, uu), chk.lt(uu, aw), chk.lt(0, vv), chk.lt(vv, ah))
    out_patch = Or(chk.lt(uu, 0), chk.lt(aw, uu), chk.lt(vv, 0), chk.lt(ah, vv))
    m.require('strictly inside the region => not outside the patch', Implies(O.rect_in(px, py, cx, cy, w, h, c, s), Not(out_patch)))
    m.require('strictly outside the region => not inside the patch', Implies(O.rect_out(px, py, cx, cy, w, h, c, s), Not(in_patch)))
    llx, lly = reg._lower_left_xy()
    m.require('anchor = rotated lower-left corner - origin',
              And(ax == llx - ox, ay == lly - oy, llx == cx - (w / 2) * c + (h / 2) * s, lly == cy - (w / 2) * s - (h / 2) * c))
    cor = np.asarray(reg.corners, dtype=object)
    exp = [(-1, -1), (1, -1), (1, 1), (-1, 1)]
    m.require('corners are the four rotated corners in order',
              And(*[And(cor[k][0] == cx + sx * (w / 2) * c - sy * (h / 2) * s, cor[k][1] == cy + sx * (w / 2) * s + sy * (h / 2) * c)
                    for k, (sx, sy) in enumerate(exp)]))


def h_polygon(variant, m):
    from regions import PolygonPixelRegion, RegularPolygonPixelRegion, PixCoord
    _install(m)
    ox, oy = _origin(m)
    dt = object if m.sym else float
    cx, cy = m.real('vx0'), m.real('vy0')
    if variant == 'regular':
        reg = RegularPolygonPixelRegion(PixCoord(cx, cy), 4, m.pos('rad'), angle=m.angle('theta', 'deg'))
    else:
        vx = [cx] + [cx + m.real(f'ex{i}') for i in (1, 2)]
        vy = [cy] + [cy + m.real(f'ey{i}') for i in (1, 2)]
        if variant == 'integer-vertices':
            # vertices given as an INTEGER array (legitimate input); the plot origin is any real
            reg = PolygonPixelRegion(PixCoord(np.array([1, 5, 2]), np.array([1, 2, 6])))
        elif variant == 'origin':
            qx, qy = m.real('qx'), m.real('qy')
            reg = PolygonPixelRegion(PixCoord(np.array([x - qx for x in vx], dtype=dt), np.array([y - qy for y in vy], dtype=dt)),
                                     origin=PixCoord(qx, qy))
        else:
            reg = PolygonPixelRegion(PixCoord(np.array(vx, dtype=dt), np.array(vy, dtype=dt)))
    art = reg.as_artist(origin=(ox, oy))
    m.require('artist is a Polygon patch', type(art).__name__ == 'Polygon')
    xy = np.asarray(art.get_xy(), dtype=object)
    rvx = np.asarray(reg.vertices.x, dtype=object)
    rvy = np.asarray(reg.vertices.y, dtype=object)
    n = len(rvx)
    m.require('patch has one vertex per region vertex (plus an optional closing vertex)', len(xy) in (n, n + 1))
    m.require('patch vertices = region vertices - origin, in order',
              And(*[And(xy[k][0] == rvx[k] - ox, xy[k][1] == rvy[k] - oy) for k in range(n)]))


def h_point_text_line(kind, m):
    from regions import PointPixelRegion, TextPixelRegion, LinePixelRegion, PixCoord
    _install(m)
    cx, cy = m.real('cx'), m.real('cy')
    ox, oy = _origin(m)
    if kind == 'point':
        art = PointPixelRegion(PixCoord(cx, cy)).as_artist(origin=(ox, oy))
        m.require('artist is a Line2D marker', type(art).__name__ == 'Line2D')
        xs, ys = list(art.get_xdata()), list(art.get_ydata())
        m.require('one marker at position - origin', len(xs) == 1 and len(ys) == 1 and And(xs[0] == cx - ox, ys[0] == cy - oy))
    elif kind == 'text':
        art = TextPixelRegion(PixCoord(cx, cy), 'some text').as_artist(origin=(ox, oy))
        m.require('artist is a Text', type(art).__name__ == 'Text')
        x, y = art.get_position()
        m.require('text at position - origin with the region text', And(x == cx - ox, y == cy - oy) and art.get_text() == 'some text')
    else:
        ex, ey = cx + m.real('ex'), cy + m.real('ey')
        art = LinePixelRegion(PixCoord(cx, cy), PixCoord(ex, ey)).as_artist(origin=(ox, oy))
        m.require('artist is an Arrow', type(art).__name__ in ('Arrow',))
        if isinstance(art, _Rec):
            m.require('arrow runs from start - origin by (end - start)',
                      And(art.x == cx - ox, art.y == cy - oy, art.dx == ex - cx, art.dy == ey - cy))
            m.require('default arrow width is 0.1', art.width == 0.1)


def _signed_area(verts):
    a = 0
    n = len(verts)
    for k in range(n):
        x0, y0 = verts[k]
        x1, y1 = verts[(k + 1) % n]
        a = a + (x0 * y1 - x1 * y0)
    return a


def h_annulus(kind, m):
    from regions import CircleAnnulusPixelRegion, EllipseAnnulusPixelRegion, RectangleAnnulusPixelRegion, PixCoord
    _install(m, always=True)          # the stub outlines are used in replay too (exact vertex bookkeeping)
    cx, cy = m.real('cx'), m.real('cy')
    ox, oy = _origin(m)
    if kind == 'circle':
        r1 = m.pos('r1')
        reg = CircleAnnulusPixelRegion(PixCoord(cx, cy), r1, r1 + m.pos('dr'))
    else:
        w1, h1 = m.pos('w1'), m.pos('h1')
        cls = EllipseAnnulusPixelRegion if kind == 'ellipse' else RectangleAnnulusPixelRegion
        reg = cls(PixCoord(cx, cy), w1, w1 + m.pos('dw'), h1, h1 + m.pos('dh'), angle=m.angle('theta', 'deg'))
    art = reg.as_artist(origin=(ox, oy))
    m.require('artist is a PathPatch', type(art).__name__ == 'PathPatch')
    inner = reg._inner_region.as_artist(origin=(ox, oy)).get_path()
    outer = reg._outer_region.as_artist(origin=(ox, oy)).get_path()
    V = np.asarray(art.get_path().vertices, dtype=object)
    no, ni = len(outer.vertices), len(inner.vertices)
    m.require('path = outer outline followed by the inner outline', len(V) == no + ni)
    if len(V) != no + ni:
        return
    m.require('outer outline unchanged', And(*[And(V[k][0] == outer.vertices[k][0], V[k][1] == outer.vertices[k][1]) for k in range(no)]))
    inner_part = [(V[no + k][0], V[no + k][1]) for k in range(ni - 1)]
    orig_inner = [(inner.vertices[k][0], inner.vertices[k][1]) for k in range(ni - 1)]
    m.require('inner outline has the opposite orientation (a hole): signed area negated',
              _signed_area(inner_part) == -_signed_area(orig_inner))
    m.require('inner outline visits the same vertices',
              And(*[Or(*[And(p[0] == q[0], p[1] == q[1]) for q in orig_inner]) for p in inner_part]))
    m.require('inner outline is closed like the original', And(V[no + ni - 1][0] == V[no + ni - 2][0], V[no + ni - 1][1] == V[no + ni - 2][1]))
    codes = list(art.get_path().codes)
    m.require('path codes: outer codes then inner codes', codes == list(outer.codes) + list(inner.codes))


def h_kwargs(kind, m):
    """visual attributes become artist keywords; caller keywords override them"""
    from regions import (CirclePixelRegion, PointPixelRegion, TextPixelRegion, PixCoord, RegionVisual, LinePixelRegion,
                         CircleAnnulusPixelRegion)
    _install(m, always=True)          # keyword bookkeeping is checked on the recording artists in replay too
    c = PixCoord(1.0, 2.0)
    vis = {'circle': {'color': 'red', 'linewidth': 3, 'fill': True}, 'point': {'color': 'red', 'symsize': 9, 'linewidth': 3},
           'text': {'color': 'red', 'fontsize': 12, 'textangle': 30, 'linewidth': 3},
           'line': {'color': 'red', 'linewidth': 3}, 'annulus': {'color': 'red', 'linewidth': 3}}[kind]
    mk = {'circle': lambda v: CirclePixelRegion(c, 2.0, visual=RegionVisual(v)), 'point': lambda v: PointPixelRegion(c, visual=RegionVisual(v)),
          'text': lambda v: TextPixelRegion(c, 't', visual=RegionVisual(v)), 'line': lambda v: LinePixelRegion(c, PixCoord(3.0, 4.0), visual=RegionVisual(v)),
          'annulus': lambda v: CircleAnnulusPixelRegion(c, 1.0, 2.0, visual=RegionVisual(v))}[kind]
    reg = mk(vis)
    plain = _kw(reg.as_artist())
    artist = {'circle': 'Patch', 'point': 'Line2D', 'text': 'Text', 'line': 'Patch', 'annulus': 'Patch'}[kind]
    expected = reg.visual.define_mpl_kwargs(artist)
    if kind == 'line':
        expected = dict(expected)
    m.require('artist keywords are the translated visual attributes',
              all(plain.get(k) == v for k, v in expected.items()))
    key_override = {'circle': ('edgecolor', 'blue'), 'point': ('markeredgecolor', 'blue'), 'text': ('color', 'blue'),
                    'line': ('edgecolor', 'blue'), 'annulus': ('edgecolor', 'blue')}[kind]
    over = _kw(reg.as_artist(**{key_override[0]: key_override[1], 'alpha': 0.5}))
    m.require('caller keyword overrides the stored visual attribute', over.get(key_override[0]) == key_override[1])
    if artist == 'Patch':
        # matplotlib documents that a patch's `color` keyword sets both edge and face colour and takes precedence over
        # `edgecolor` / `facecolor`: the colour the caller asked for is only effective if no `color` keyword is passed along
        m.require("caller's edgecolor is effective (no overriding `color` keyword is passed to the patch)", 'color' not in over)
    m.require('extra caller keywords are passed through', over.get('alpha') == 0.5)
    m.require('the other visual attributes are still applied',
              all(over.get(k) == v for k, v in expected.items() if k != key_override[0]))
    m.require('the stored visual dict is not modified', dict(reg.visual) == vis)
    again = _kw(reg.as_artist())
    m.require('a later call without keywords is not affected by the overrides of an earlier call', again == plain)
    other = _kw(mk(vis).as_artist())
    m.require('a second region with an equal visual gets the same keywords', other == plain)


def h_bbox(m):
    from regions import RegionBoundingBox
    _install(m)
    m.shim('regions.core.bounding_box', '_is_int', symx.sym_is_int)
    x0, y0 = m.integer('ixmin'), m.integer('iymin')
    nx, ny = m.integer('nx', lo=0), m.integer('ny', lo=0)
    bb = RegionBoundingBox(x0, x0 + nx, y0, y0 + ny)
    art = bb.as_artist(facecolor='none')
    m.require('artist is a Rectangle', type(art).__name__ == 'Rectangle')
    ax, ay = art.get_xy()
    aw, ah = (art.width, art.height) if isinstance(art, _Rec) else (art.get_width(), art.get_height())
    m.require('rectangle spans the pixel-edge extent of the box', And(ax == x0 - 0.5, ay == y0 - 0.5, aw == nx, ah == ny))


def harnesses(tier):
    P = functools.partial
    q = tier == 'quick'
    aus = ['deg', 'rad'] if q else ['default', 'deg', 'rad', 'arcmin']
    hs = [('circle', h_circle), ('bbox', h_bbox)]
    for au in aus:
        hs.append((f'ellipse/{au}', P(h_ellipse, au)))
        hs.append((f'rectangle/{au}', P(h_rect, au)))
    for v in ('plain', 'origin', 'regular'):
        hs.append((f'polygon/{v}', P(h_polygon, v)))
    hs.append(('polygon/integer-vertices', P(h_polygon, 'integer-vertices')))
    for k in ('point', 'text', 'line'):
        hs.append((f'{k}', P(h_point_text_line, k)))
    for k in ('circle', 'ellipse', 'rectangle'):
        hs.append((f'annulus/{k}', P(h_annulus, k)))
    for k in ('circle', 'point', 'text', 'line', 'annulus'):
        hs.append((f'kwargs/{k}', P(h_kwargs, k)))
    return hs


def cases(tier, seed):
    return [(name, functools.partial(chk.run_case, 'C18', name, h, max_paths=600)) for name, h in harnesses(tier)]


META = {
    'functions_encoded': ['as_artist of Circle/Ellipse/Rectangle/Polygon/RegularPolygon/Point/Text/Line pixel regions',
                          'RectanglePixelRegion._lower_left_xy / corners', 'CompoundPixelRegion.as_artist / _make_annulus_path (annuli)',
                          'RegionVisual.define_mpl_kwargs', 'RegionBoundingBox.as_artist'],
    'bounds': {'quick': {'parameters, origin, probe position': 'unbounded reals', 'angle units': ['deg', 'rad'], 'polygon': 'triangle / regular n=4',
                         'annulus outlines': 'stub outlines with 4 symbolic vertices each'},
               'thorough': {'angle units': ['default', 'deg', 'rad', 'arcmin']}},
    'outside_claim': ['matplotlib itself (Bezier approximation of circles/ellipses, transforms, contains_point): the documented point set of '
                      'each patch class (Circle(xy, r), Ellipse(xy, w, h, angle deg), Rectangle(xy, w, h, angle deg about xy), Polygon(xy)) '
                      'is written down in the harness and compared with the region for every probe position',
                      'as_mpl_selector / interactive widgets'],
    'stubs': ['matplotlib.patches/lines/text/path -> recording classes with the documented constructor signatures (symbolic mode); '
              'replays use the real matplotlib classes'],
    'assumptions': ['floats are interpreted as reals'],
}
