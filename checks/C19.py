"""C19 bounding-box arithmetic is exact integer rectangle algebra (DESIGN section 5, C19)."""
import functools

import numpy as np

from vf import chk, symx
from vf.chk import And, Or, Not, Implies, Iff, If

BB = 'regions.core.bounding_box'


def _shims(m):
    m.shim(BB, '_is_int', symx.sym_is_int)
    m.shim(BB, 'int', symx.sint)
    m.shim(BB, 'float', symx.sfloat)
    from vf import kernels as _k
    m.shim(BB, 'np', _k.NPFacade())
    m.shim(BB, 'max', smax)
    m.shim(BB, 'min', smin)


def _fold(args, pick):
    if len(args) == 1 and isinstance(args[0], (tuple, list)):
        args = tuple(args[0])
    r = args[0]
    for a in args[1:]:
        r = pick(r, a)
    return r


def smax(*args):
    """builtin max as a symbolic ite (no fork); same value as the builtin"""
    return _fold(args, lambda a, b: If(a >= b, a, b) if symx.is_sym(a) or symx.is_sym(b) else max(a, b))


def smin(*args):
    return _fold(args, lambda a, b: If(a <= b, a, b) if symx.is_sym(a) or symx.is_sym(b) else min(a, b))


def _box(m, tag, nonempty=False):
    from regions import RegionBoundingBox
    x0, x1, y0, y1 = (m.integer(f'{tag}_ixmin'), m.integer(f'{tag}_ixmax'), m.integer(f'{tag}_iymin'),
                      m.integer(f'{tag}_iymax'))
    m.assume(x0 <= x1)
    m.assume(y0 <= y1)
    if nonempty:
        m.assume(x0 < x1)
        m.assume(y0 < y1)
    return RegionBoundingBox(x0, x1, y0, y1)


def _in(b, x, y):
    """pixel (x, y) belongs to box b (None = no pixels)"""
    if b is None:
        return False
    return And(b.ixmin <= x, x < b.ixmax, b.iymin <= y, y < b.iymax)


def _same(a, b):
    if a is None or b is None:
        return a is None and b is None
    return And(a.ixmin == b.ixmin, a.ixmax == b.ixmax, a.iymin == b.iymin, a.iymax == b.iymax)


def _nonempty(b):
    return And(b.ixmin < b.ixmax, b.iymin < b.iymax)


def h_union(m):
    _shims(m)
    a, b = _box(m, 'a'), _box(m, 'b')
    x, y = m.integer('x'), m.integer('y')
    uab = a.union(b)
    m.require('union contains every pixel of both operands', Implies(Or(_in(a, x, y), _in(b, x, y)), _in(uab, x, y)))
    m.require('union is a valid box', And(uab.ixmin <= uab.ixmax, uab.iymin <= uab.iymax))
    ne = And(_nonempty(a), _nonempty(b))
    # minimality: every border row/column of the hull holds a pixel of an operand
    m.require('union is minimal (non-empty operands): left column reached',
              Implies(ne, Or(uab.ixmin == a.ixmin, uab.ixmin == b.ixmin)))
    m.require('union is minimal (non-empty operands): right column reached',
              Implies(ne, Or(uab.ixmax == a.ixmax, uab.ixmax == b.ixmax)))
    m.require('union is minimal (non-empty operands): bottom row reached',
              Implies(ne, Or(uab.iymin == a.iymin, uab.iymin == b.iymin)))
    m.require('union is minimal (non-empty operands): top row reached',
              Implies(ne, Or(uab.iymax == a.iymax, uab.iymax == b.iymax)))
    m.require('union hull corners are the extreme corners',
              And(uab.ixmin <= a.ixmin, uab.ixmin <= b.ixmin, uab.ixmax >= a.ixmax, uab.ixmax >= b.ixmax,
                  uab.iymin <= a.iymin, uab.iymin <= b.iymin, uab.iymax >= a.iymax, uab.iymax >= b.iymax))
    m.require('union is commutative', _same(uab, b.union(a)))
    m.require('| operator is union', _same(uab, a | b))


def h_union_assoc(m):
    _shims(m)
    a, b, c = _box(m, 'a'), _box(m, 'b'), _box(m, 'c')
    m.require('union is associative', _same(a.union(b).union(c), a.union(b.union(c))))
    m.require('union is idempotent', _same(a.union(a), a))


def h_intersection(m):
    _shims(m)
    a, b = _box(m, 'a'), _box(m, 'b')
    x, y = m.integer('x'), m.integer('y')
    iab = a.intersection(b)
    common = And(_in(a, x, y), _in(b, x, y))
    m.require('intersection holds exactly the common pixels', Iff(common, _in(iab, x, y)))
    gap = Or(a.ixmax < b.ixmin, b.ixmax < a.ixmin, a.iymax < b.iymin, b.iymax < a.iymin)
    m.require('None exactly when the boxes are separated', Iff(gap, iab is None))
    if iab is not None:
        m.require('intersection is a valid box', And(iab.ixmin <= iab.ixmax, iab.iymin <= iab.iymax))
    m.require('intersection is commutative', _same(iab, b.intersection(a)))
    m.require('& operator is intersection', _same(iab, a & b))


def h_intersection_assoc(m):
    _shims(m)
    a, b, c = _box(m, 'a'), _box(m, 'b'), _box(m, 'c')
    x, y = m.integer('x'), m.integer('y')
    ab = a.intersection(b)
    bc = b.intersection(c)
    left = None if ab is None else ab.intersection(c)
    right = None if bc is None else a.intersection(bc)
    m.require('intersection is associative on pixel sets', Iff(_in(left, x, y), _in(right, x, y)))
    m.require('a & a == a', _same(a.intersection(a), a))
    # absorption with union
    u = a.union(b)
    m.require('a & (a | b) == a', _same(a.intersection(u), a))


def h_shape_center_extent(m):
    _shims(m)
    a = _box(m, 'a')
    x, y = m.integer('x'), m.integer('y')
    ny, nx = a.shape
    m.require('shape = (rows, columns) of the pixel set', And(ny == a.iymax - a.iymin, nx == a.ixmax - a.ixmin))
    cy, cx = a.center
    m.require('center = mean pixel index', And(2 * cy == a.iymin + a.iymax - 1, 2 * cx == a.ixmin + a.ixmax - 1))
    e = a.extent
    m.require('extent = pixel-edge rectangle of the pixel set',
              Iff(_in(a, x, y), And(e[0] < x, x < e[1], e[2] < y, y < e[3])))
    m.require('extent edges are half-integers around the corners',
              And(e[0] == a.ixmin - 0.5, e[1] == a.ixmax - 0.5, e[2] == a.iymin - 0.5, e[3] == a.iymax - 0.5))
    m.require('== is reflexive', a == a)


def h_corner_history(m):
    """the derived quantities follow the corners: read them, move every corner (the corners are public attributes), read them again"""
    import copy
    _shims(m)
    a = _box(m, 'a')
    _ = (a.shape, a.center, a.extent)                 # a first read, which a caching implementation would remember
    c = copy.copy(a)
    kx0, kx1, ky0, ky1 = m.integer('kx0', lo=0, hi=3), m.integer('kx1', lo=0, hi=3), m.integer('ky0', lo=0, hi=3), m.integer('ky1', lo=0, hi=3)
    for b in (a, c):
        b.ixmin -= kx0
        b.ixmax += kx1
        b.iymin -= ky0
        b.iymax += ky1
        ny, nx = b.shape
        m.require('after moving the corners: shape follows', And(ny == b.iymax - b.iymin, nx == b.ixmax - b.ixmin))
        cy, cx = b.center
        m.require('after moving the corners: center follows', And(2 * cy == b.iymin + b.iymax - 1, 2 * cx == b.ixmin + b.ixmax - 1))
        e = b.extent
        m.require('after moving the corners: extent follows',
                  And(e[0] == b.ixmin - 0.5, e[1] == b.ixmax - 0.5, e[2] == b.iymin - 0.5, e[3] == b.iymax - 0.5))


def h_eq(m):
    _shims(m)
    a, b = _box(m, 'a'), _box(m, 'b')
    eq = a == b
    m.require('== iff all four corners agree', Iff(eq, _same(a, b)))


def h_init_validation(m):
    """constructor refuses inverted boxes (and only those)"""
    _shims(m)
    from regions import RegionBoundingBox
    x0, x1, y0, y1 = m.integer('ixmin'), m.integer('ixmax'), m.integer('iymin'), m.integer('iymax')
    try:
        b = RegionBoundingBox(x0, x1, y0, y1)
        m.require('accepted boxes are ordered', And(x0 <= x1, y0 <= y1))
        m.require('corners stored unchanged', And(b.ixmin == x0, b.ixmax == x1, b.iymin == y0, b.iymax == y1))
    except ValueError:
        m.require('rejected boxes are inverted', Or(x0 > x1, y0 > y1))


def h_from_float(m):
    _shims(m)
    from regions import RegionBoundingBox
    xmin, ymin = m.real('xmin'), m.real('ymin')
    xmax, ymax = xmin + m.real('dx', lo=0), ymin + m.real('dy', lo=0)
    b = RegionBoundingBox.from_float(xmin, xmax, ymin, ymax)
    e = b.extent
    m.require('pixel-edge extent covers the rectangle',
              And(e[0] <= xmin, xmax <= e[1], e[2] <= ymin, ymax <= e[3]))
    m.require('smallest: raising ixmin by one would uncover xmin', xmin < b.ixmin + 0.5)
    m.require('smallest: lowering ixmax by one would uncover xmax', b.ixmax - 1.5 < xmax)
    m.require('smallest: raising iymin by one would uncover ymin', ymin < b.iymin + 0.5)
    m.require('smallest: lowering iymax by one would uncover ymax', b.iymax - 1.5 < ymax)
    m.require('corners are integers', all(symx.sym_is_int(v) if m.sym else isinstance(v, (int, np.integer))
                                          for v in (b.ixmin, b.ixmax, b.iymin, b.iymax)))


def h_overlap(m):
    _shims(m)
    a = _box(m, 'a')
    H, W = m.integer('H', lo=0), m.integer('W', lo=0)
    x, y = m.integer('x'), m.integer('y')
    sl_large, sl_small = a.get_overlap_slices((H, W))
    common = And(_in(a, x, y), 0 <= x, x < W, 0 <= y, y < H)
    # a common pixel exists iff the integer intervals [ixmin, ixmax) and [0, W) meet, same in y
    anycommon = And(chk.Max(a.ixmin, 0) < chk.Min(a.ixmax, W), chk.Max(a.iymin, 0) < chk.Min(a.iymax, H))
    m.require('(None, None) exactly when box and image share no pixel',
              Iff(sl_large is None, Not(anycommon)))
    m.require('both slices are None together', (sl_large is None) == (sl_small is None))
    if sl_large is None:
        m.require('no overlap reported => probe pixel is not common', Not(common))
        return
    ly, lx = sl_large
    sy, sx = sl_small
    for s_ in (ly, lx, sy, sx):
        m.require('slices have no step', s_.step is None)
    m.require('image-side window selects exactly the common pixels',
              Iff(common, And(ly.start <= y, y < ly.stop, lx.start <= x, x < lx.stop)))
    m.require('box-side window addresses the same pixels in box coordinates',
              And(sy.start == ly.start - a.iymin, sy.stop == ly.stop - a.iymin,
                  sx.start == lx.start - a.ixmin, sx.stop == lx.stop - a.ixmin))
    m.require('windows have equal shapes',
              And(sy.stop - sy.start == ly.stop - ly.start, sx.stop - sx.start == lx.stop - lx.start))
    m.require('no negative (wrap-around) slice bound',
              And(ly.start >= 0, lx.start >= 0, sy.start >= 0, sx.start >= 0,
                  ly.stop >= ly.start, lx.stop >= lx.start, sy.stop >= sy.start, sx.stop >= sx.start))
    m.require('windows stay inside image and box',
              And(ly.stop <= H, lx.stop <= W, sy.stop <= a.iymax - a.iymin, sx.stop <= a.ixmax - a.ixmin))


def h_overlap_bad_shape(m):
    _shims(m)
    a = _box(m, 'a')
    for bad in ((3,), (3, 3, 3)):
        try:
            a.get_overlap_slices(bad)
            m.require('non-2D shape is rejected', False)
        except ValueError:
            m.require('non-2D shape is rejected', True)


def harnesses(tier):
    return [('union', h_union), ('union-assoc', h_union_assoc), ('intersection', h_intersection),
            ('intersection-assoc', h_intersection_assoc), ('shape-center-extent', h_shape_center_extent), ('corner-history', h_corner_history),
            ('eq', h_eq), ('init-validation', h_init_validation), ('from_float', h_from_float),
            ('overlap-slices', h_overlap), ('overlap-bad-shape', h_overlap_bad_shape)]


def cases(tier, seed):
    out = [(name, functools.partial(chk.run_case, 'C19', name, h, max_paths=4000)) for name, h in harnesses(tier)]
    from checks import C19_fp
    out.append(('from_float/ieee-lemma', functools.partial(C19_fp.case, tier)))
    return out


META = {
    'functions_encoded': ['regions.core.bounding_box.RegionBoundingBox.__init__/from_float/__eq__/__or__/__and__/'
                          'center/shape/extent/get_overlap_slices/union/intersection'],
    'bounds': {'quick': {'corners_image_shape_probe_pixel': 'unbounded mathematical integers',
                         'from_float arguments': 'unbounded reals; IEEE lemma: doubles on the 1/8 lattice, |x| < 2^49'},
               'thorough': {'corners_image_shape_probe_pixel': 'unbounded mathematical integers',
                            'from_float arguments': 'unbounded reals; IEEE lemma: doubles on the 1/8 lattice, |x| < 2^49'}},
    'outside_claim': ['numpy fixed-width integer corners near overflow',
                      'from_float on doubles off the 1/8 lattice / beyond 2^49 (real-number model used there)',
                      'union minimality is claimed for non-empty operands only (for an empty operand the code returns '
                      'the hull of the corners, which the statement does not pin down)',
                      'for boxes that merely touch (no gap, no common pixel) the intersection is an empty box, not None; '
                      'both readings of "None when disjoint" are accepted there'],
    'stubs': ['regions.core.bounding_box._is_int accepts integral symbols', 'regions.core.bounding_box.int keeps integral symbols', 'regions.core.bounding_box.max/min -> the same function as an ite term (no path fork)'],
    'assumptions': ['Python ints are mathematical integers (no overflow)'],
}
