"""C11 CRTF text round-trips and is read according to the CASA conventions."""
import functools
import warnings

import numpy as np
import z3
import astropy.units as u

from vf import chk, symx, kernels, tokens
from vf.chk import And, Or, Not, Implies, Iff, If
from checks import C09

PIX_SHAPES = ['circle', 'ellipse', 'rectangle', 'polygon', 'annulus-circle', 'line', 'point', 'text']
FRAMES = {'fk5': 'fk5', 'fk4': 'fk4', 'icrs': 'icrs', 'galactic': 'galactic', 'supergalactic': 'supergalactic',
          'geocentrictrueecliptic': 'geocentrictrueecliptic'}
METAS = {
    'plain': ({}, {}),
    'label': ({'label': 'my label'}, {'color': 'blue'}),
    'ann': ({'type': 'ann'}, {'linewidth': '2'}),
    'spectral': ({'frame': 'BARY', 'veltype': 'RADIO', 'corr': ['I', 'Q'], 'range': [u.Quantity('1.0GHz'), u.Quantity('2.0GHz')]}, {}),
    'symbol': ({}, {'symbol': 'D', 'symsize': '3'}),
}


def _shims(m):
    if m.sym:
        m.shim('regions.io.crtf.io_core', 'float', symx.sfloat)
        m.shim('regions.io.crtf.read', 'Angle', tokens.Angle)
        m.shim('regions.io.crtf.read', 'u', tokens.UnitsFacade())
        m.shim('regions.core.pixcoord', 'np', kernels.NPFacade())


def _fmt_prec(fmt):
    return int(fmt[1:-1])


def h_roundtrip(kinds, metas, includes, frames, coordsys, fmt, radunit, ang_i, m):
    from regions import Regions
    _shims(m)
    prec = _fmt_prec(fmt)
    regs = []
    for i, (k, mk, inc, fr) in enumerate(zip(kinds, metas, includes, frames)):
        md, vd = METAS[mk]
        md = dict(md)
        if k in C09.TEXTS:
            md.pop('label', None)      # for a text region the label key doubles as its string (pinned by the existing tests)
        if inc != 'absent':
            md['include'] = inc
        ang = C09.ANGLES[(ang_i + i) % len(C09.ANGLES)]
        if fr == 'image':
            regs.append(C09.build_pix(k, m, f'r{i}_', md, vd, ang))
        else:
            regs.append(C09.build_sky(k, fr, md, vd, ang))
    C09._assume_printable(m, regs, prec)
    with warnings.catch_warnings():
        warnings.simplefilter('ignore')
        text = Regions(regs).serialize(format='crtf', coordsys=coordsys, fmt=fmt, radunit=radunit)
        text2 = Regions(regs).serialize(format='crtf', coordsys=coordsys, fmt=fmt, radunit=radunit)
        m.require('serialising is deterministic', C09._same_text(text, text2) if m.sym else text == text2)
        back = Regions.parse(text, format='crtf')
    m.require('one parsed region per input region', len(back) == len(regs))
    if len(back) != len(regs):
        return
    unit_scale = {'deg': 1.0, 'arcmin': 1 / 60, 'arcsec': 1 / 3600, 'pix': 1.0, 'rad': 57.29577951308232}[radunit]
    for i, (orig, new) in enumerate(zip(regs, back)):
        tag = f'#{i} {kinds[i]}@{frames[i]}'
        ref = orig.to_polygon() if kinds[i] == 'regpoly' else orig
        m.require(f'{tag}: same class', type(new) is type(ref))
        if type(new) is not type(ref):
            continue
        _within(m, tag, ref, new, prec, unit_scale, coordsys)
        inc_o = bool(orig.meta.get('include', True))
        m.require(f'{tag}: include / exclude sense preserved', bool(new.meta.get('include', True)) == inc_o)
        md = METAS[metas[i]][0]
        m.require(f'{tag}: annotation type preserved', new.meta.get('type', 'reg') == md.get('type', 'reg'))
        if 'label' in md and kinds[i] not in C09.TEXTS:
            m.require(f'{tag}: label preserved', new.meta.get('label') == md['label'])
        if kinds[i] in C09.TEXTS:
            m.require(f'{tag}: text string preserved', new.text == orig.text, key='C11:text:string-lost')
        for k_ in ('frame', 'veltype', 'corr'):
            if k_ in md:
                m.require(f'{tag}: {k_} preserved', new.meta.get(k_) == md[k_])
        if 'range' in md:
            m.require(f'{tag}: range preserved', [str(x) for x in new.meta.get('range', [])] == [str(x) for x in md['range']])
        vd = METAS[metas[i]][1]
        for k_ in ('color', 'linewidth', 'symsize'):
            if k_ in vd:
                m.require(f'{tag}: {k_} preserved', str(new.visual.get(k_)) == str(vd[k_]))
        if 'symbol' in vd and kinds[i] == 'point':
            m.require(f'{tag}: symbol preserved', new.visual.get('symbol') == vd['symbol'])
    with warnings.catch_warnings():
        warnings.simplefilter('ignore')
        again = Regions.parse(back.serialize(format='crtf', coordsys=coordsys, fmt=fmt, radunit=radunit), format='crtf')
    m.require('fixed point: same number of regions', len(again) == len(back))
    if len(again) == len(back):
        for j, (a, b) in enumerate(zip(back, again)):
            m.require(f'fixed point #{j}: same class', type(a) is type(b))
            if type(a) is type(b):
                _within(m, f'fixed point #{j}', a, b, prec, unit_scale, coordsys)
                m.require(f'fixed point #{j}: include sense', bool(a.meta.get('include', True)) == bool(b.meta.get('include', True)))


def _within(m, tag, a, b, prec, unit_scale, coordsys):
    na, nb = C09._numeric(a), C09._numeric(b)
    m.require(f'{tag}: same parameter list', [n for n, _, _ in na] == [n for n, _, _ in nb])
    half = 0.5 * 10.0 ** (-prec)
    for (n, x, sc), (_, y, _) in zip(na, nb):
        if sc == 0:
            m.require(f'{tag}: {n} kept', x == y)
            continue
        if n.endswith('.lon') or n.endswith('.lat') or n == 'angle':
            tol = half                      # written in degrees
        elif n.endswith('.x') or n.endswith('.y'):
            tol = half
        else:
            tol = half * sc * (unit_scale if coordsys != 'image' else 1.0)      # sizes are written in radunit
        if n.endswith('.lat') and coordsys not in ('image',):
            continue          # handled together with .lon below (frame-independent separation)
        if n.endswith('.lon') and coordsys not in ('image',):
            pname = n[:-4]
            ca, cb = getattr(a, pname), getattr(b, pname)
            sep = np.max(np.atleast_1d(ca.separation(cb.transform_to(ca.frame)).deg))
            m.require(f'{tag}: {pname} within half a unit of the format precision (angular separation, any frame)',
                      sep <= 2 * half * 1.000001 + 1e-9)
            continue
        if symx.is_sym(x) or symx.is_sym(y):
            m.require(f'{tag}: {n} within half a unit of the format precision', And(x - y <= tol, y - x <= tol))
        else:
            d = abs(float(x) - float(y))
            if n.endswith('.lon'):
                d = min(d, 360 - d)
            m.require(f'{tag}: {n} within half a unit of the format precision', d <= tol * 1.0000001 + 1e-12)


READ_CASES = [
    # (text, checks) : CASA reading rules on literal lines
    ("#CRTFv0\nglobal coord=J2000, color=blue\ncircle[[10deg, 20deg], 3arcsec]\n",
     lambda rs: len(rs) == 1 and type(rs[0]).__name__ == 'CircleSkyRegion' and rs[0].center.frame.name == 'fk5'
     and abs(rs[0].radius.to_value(u.arcsec) - 3) < 1e-9 and rs[0].visual.get('color') == 'blue' and rs[0].meta.get('include') is True),
    ("#CRTFv0\nglobal coord=J2000, color=blue\n-circle[[10deg, 20deg], 3arcsec], color=red, coord=GALACTIC\n",
     lambda rs: rs[0].visual.get('color') == 'red' and rs[0].center.frame.name == 'galactic' and rs[0].meta.get('include') is False),
    ("#CRTFv0\nann ellipse[[10deg, 20deg], [4arcsec, 2arcsec], 30deg], coord=ICRS\n",
     lambda rs: type(rs[0]).__name__ == 'EllipseSkyRegion' and rs[0].meta.get('type') == 'ann'
     and abs(rs[0].height.to_value(u.arcsec) - 8) < 1e-9 and abs(rs[0].width.to_value(u.arcsec) - 4) < 1e-9
     and abs(rs[0].angle.to_value(u.deg) - 30) < 1e-9),
    ("#CRTFv0\nrotbox[[10pix, 20pix], [5pix, 3pix], 45deg], coord=image\ncenterbox[[1pix, 2pix], [4pix, 6pix]], coord=image\n",
     lambda rs: [type(r).__name__ for r in rs] == ['RectanglePixelRegion'] * 2 and rs[0].center.x == 10 and rs[0].width == 5
     and rs[0].height == 3 and abs(rs[0].angle.to_value(u.deg) - 45) < 1e-9 and rs[1].width == 4 and rs[1].height == 6),
    ("#CRTFv0\npoly[[1pix,2pix],[3pix,4pix],[5pix,0pix]], coord=image\nsymbol[[3pix,4pix], D], coord=image\ntext[[3pix,4pix], 'hello'], coord=image\n",
     lambda rs: [type(r).__name__ for r in rs] == ['PolygonPixelRegion', 'PointPixelRegion', 'TextPixelRegion']
     and list(rs[0].vertices.x) == [1, 3, 5] and rs[1].visual.get('symbol') == 'D' and rs[2].text == 'hello'),
    ("#CRTFv0\nannulus[[10:00:00.0, +20.00.00.0], [3arcsec, 6arcsec]], coord=J2000\n",
     lambda rs: type(rs[0]).__name__ == 'CircleAnnulusSkyRegion' and abs(rs[0].center.ra.deg - 150) < 1e-9
     and abs(rs[0].center.dec.deg - 20) < 1e-9 and abs(rs[0].outer_radius.to_value(u.arcsec) - 6) < 1e-9),
    ("#CRTFv0\ncircle[[00:02:00.0, -000.30.00.0], 3arcsec], coord=J2000\ncircle[[-000.15.00.0deg, -01.30.00.0], 3arcsec], coord=GALACTIC\n",
     lambda rs: abs(rs[0].center.ra.deg - 0.5) < 1e-9 and abs(rs[0].center.dec.deg + 0.5) < 1e-9
     and abs(rs[1].center.b.deg + 1.5) < 1e-9),
    ("#CRTFv0\ncircle[[0.5rad, -0.25rad], 2arcmin], coord=ICRS\nline[[10deg, -0.5deg], [11deg, +0.5deg]], coord=J2000\n",
     lambda rs: abs(rs[0].center.ra.rad - 0.5) < 1e-12 and abs(rs[0].center.dec.rad + 0.25) < 1e-12
     and abs(rs[0].radius.to_value(u.arcmin) - 2) < 1e-9 and abs(rs[1].start.dec.deg + 0.5) < 1e-12 and abs(rs[1].end.dec.deg - 0.5) < 1e-12),
    # box[[corner], [opposite corner]]: any two opposite corners, in either order
    ("#CRTFv0\nbox[[1pix, 2pix], [5pix, 8pix]], coord=image\nbox[[5pix, 8pix], [1pix, 2pix]], coord=image\nbox[[5pix, 2pix], [1pix, 8pix]], coord=image\n",
     lambda rs: len(rs) == 3 and all(type(r).__name__ == 'RectanglePixelRegion' and r.center.x == 3 and r.center.y == 5
                                     and r.width == 4 and r.height == 6 for r in rs)),
    ("#CRTFv0\nbox[[12deg, 21deg], [10deg, 20deg]], coord=J2000\n",
     lambda rs: type(rs[0]).__name__ == 'RectangleSkyRegion' and abs(rs[0].center.ra.deg - 11) < 1e-9 and abs(rs[0].center.dec.deg - 20.5) < 1e-9
     and abs(rs[0].width.to_value(u.deg) - 2) < 1e-9 and abs(rs[0].height.to_value(u.deg) - 1) < 1e-9),
    # every vertex of a multi-point region carries its own notation / unit
    ("#CRTFv0\npoly[[18h12m24s, -23d11m00s], [273.2deg, -23.2deg], [4.77rad, -0.40rad]], coord=J2000\nline[[18:12:24.0, -23.11.00.0], [273.3deg, -23.3deg]], coord=J2000\n",
     lambda rs: [type(r).__name__ for r in rs] == ['PolygonSkyRegion', 'LineSkyRegion']
     and all(abs(a - b) < 1e-6 for a, b in zip(rs[0].vertices.ra.deg, [273.1, 273.2, 273.30086827])) and all(abs(a - b) < 1e-6 for a, b in zip(rs[0].vertices.dec.deg, [-23.18333333, -23.2, -22.91831181]))
     and abs(rs[1].start.ra.deg - 273.1) < 1e-9 and abs(rs[1].end.ra.deg - 273.3) < 1e-9 and abs(rs[1].end.dec.deg + 23.3) < 1e-9),
    # a default set by a global line stays in force until THAT key is set again
    ("#CRTFv0\nglobal coord=GALACTIC, color=blue\nglobal linewidth=3\ncircle[[10deg, 20deg], 3arcsec]\nglobal color=red\ncircle[[11deg, 21deg], 3arcsec]\n",
     lambda rs: len(rs) == 2 and all(type(r).__name__ == 'CircleSkyRegion' and r.center.frame.name == 'galactic' for r in rs)
     and rs[0].visual.get('color') == 'blue' and rs[1].visual.get('color') == 'red' and str(rs[0].visual.get('linewidth')) == '3' and str(rs[1].visual.get('linewidth')) == '3'),
    ("#CRTFv0\ncircle[[10deg, 20deg], 3], coord=J2000\n", 'error'),        # lengths require units
    ("#CRTFv0\nhexagon[[10deg, 20deg], 3arcsec]\n", 'error'),
]


def h_write_options(m):
    """EXECUTED (no symbolic input): Regions.write(..., format='crtf', **options) puts into the file exactly the text that
    serialize(format='crtf', **options) returns, for option sets away from the defaults"""
    import os
    import tempfile
    import shutil
    from regions import Regions, CircleSkyRegion, EllipseSkyRegion, CirclePixelRegion, PixCoord
    from astropy.coordinates import SkyCoord
    c = SkyCoord(10.0, 20.0, unit='deg', frame='fk5')
    sky = Regions([CircleSkyRegion(c, 1.2345 * u.arcsec), EllipseSkyRegion(c, 6 * u.arcsec, 3 * u.arcsec, angle=25 * u.deg)])
    pix = Regions([CirclePixelRegion(PixCoord(1.0, 2.0), 3.0)])
    d = tempfile.mkdtemp(prefix='vf-c11w-')
    try:
        for k_, (regs, kw) in enumerate(((sky, {'radunit': 'arcsec', 'fmt': '.3f'}), (sky, {'coordsys': 'galactic', 'radunit': 'arcmin'}),
                                         (sky, {}), (pix, {'coordsys': 'image', 'radunit': 'pix', 'fmt': '.2f'}))):
            path = os.path.join(d, f'out{k_}.crtf')
            regs.write(path, format='crtf', **kw)
            with open(path) as f:
                text = f.read()
            m.require(f'write(format=crtf, {kw}) writes what serialize(format=crtf, {kw}) returns', text == regs.serialize(format='crtf', **kw))
            regs[0].write(path, format='crtf', overwrite=True, **kw)
            with open(path) as f:
                text = f.read()
            m.require(f'Region.write(format=crtf, {kw}) writes what Region.serialize returns', text == regs[0].serialize(format='crtf', **kw))
    finally:
        shutil.rmtree(d, ignore_errors=True)


def h_reading(i, m):
    from regions import Regions
    text, expect = READ_CASES[i]
    with warnings.catch_warnings():
        warnings.simplefilter('ignore')
        try:
            rs = Regions.parse(text, format='crtf')
            err = None
        except Exception as ex:  # noqa
            rs, err = None, ex
    if expect == 'error':
        m.require('invalid CRTF is rejected', err is not None)
    else:
        m.require('valid CRTF parses', err is None)
        if err is None:
            m.require('parsed according to the CASA rules', bool(expect(rs)))


def harnesses(tier):
    P = functools.partial
    q = tier == 'quick'
    hs = []
    mk_names = list(METAS)
    k = 0
    for kind in PIX_SHAPES:
        for fmt in (['.3f', '.6f'] if q else ['.3f', '.6f', '.9f']):
            for inc in (['absent', False] if q else ['absent', True, False]):
                mk = mk_names[k % 3]
                k += 1
                if kind == 'point' and k % 2:
                    mk = 'symbol'
                hs.append((f'pixel/{kind}/fmt={fmt}/include={inc}/meta={mk}',
                           P(h_roundtrip, [kind], [mk], [inc], ['image'], 'image', fmt, 'pix', k)))
    for fr in FRAMES:
        for kind in (['circle', 'ellipse', 'rectangle', 'polygon', 'annulus-circle', 'line', 'point', 'text'] if not q else
                     ['circle', 'ellipse', 'polygon', 'text']):
            for radunit in (['deg', 'arcsec'] if q else ['deg', 'arcsec', 'arcmin']):
                hs.append((f'sky/{kind}/{fr}/radunit={radunit}', P(h_roundtrip, [kind], ['spectral' if kind == 'circle' else 'label'],
                                                                   [False if kind == 'ellipse' else 'absent'], [fr], fr, '.6f', radunit, 1)))
    for tk in C09.TEXTS:
        if tk != 'text':
            hs.append((f'pixel/{tk}', P(h_roundtrip, [tk], ['plain'], ['absent'], ['image'], 'image', '.4f', 'pix', 1)))
            hs.append((f'sky/{tk}/fk5', P(h_roundtrip, [tk], ['plain'], [False], ['fk5'], 'fk5', '.6f', 'deg', 1)))
    hs.append(('sky/circle/icrs-as-galactic', P(h_roundtrip, ['circle'], ['plain'], ['absent'], ['icrs'], 'galactic', '.6f', 'deg', 0)))
    hs.append(('list/pixel/circle+ellipse+text', P(h_roundtrip, ['circle', 'ellipse', 'text'], ['label', 'ann', 'plain'],
                                                   [False, 'absent', 'absent'], ['image'] * 3, 'image', '.4f', 'pix', 2)))
    hs.append(('list/pixel/ann+excluded', P(h_roundtrip, ['circle'], ['ann'], [False], ['image'], 'image', '.4f', 'pix', 2)))
    for i in range(len(READ_CASES)):
        hs.append((f'reading/{i}', P(h_reading, i)))
    hs.append(('write-options-equal-serialize (executed)', h_write_options))
    return hs


def cases(tier, seed):
    return [(name, functools.partial(chk.run_case, 'C11', name, h, max_paths=600)) for name, h in harnesses(tier)]


META = {
    'functions_encoded': ['regions.io.crtf.io_core._to_shape_list / _ShapeList.to_crtf / to_regions / _Shape.* / _to_crtf_meta',
                          'regions.io.crtf.read._CRTFParser / _CRTFRegionParser / _CRTFCoordinateParser'],
    'bounds': {'quick': {'pixel regions': '8 CRTF-representable classes, coordinates and sizes symbolic (decimal tokens), coordsys=image, radunit=pix, fmt in {.3f, .6f}',
                         'sky regions': '4 classes x 6 frames x radunit in {deg, arcsec}, concrete coordinates',
                         'metadata': list(METAS), 'reading rules': f'{len(READ_CASES)} literal files (global vs inline, coord=, "-", ann, semi-axes, box forms, units required)'},
               'thorough': {'fmt': ['.3f', '.6f', '.9f'], 'radunit': ['deg', 'arcsec', 'arcmin'], 'sky classes': 8}},
    'outside_claim': ['sky coordinates / angular sizes round trip through astropy float formatting on concrete values only',
                      'the grammar of CRTF lines is exercised by literal files, not by a symbolic grammar',
                      'rotation angles concrete'],
    'stubs': ['decimal tokens (see C09)', 'regions.io.crtf.io_core.float keeps symbols', 'regions.io.crtf.read.Angle / u.Quantity: token-aware stand-ins'],
    'assumptions': ['floats are interpreted as reals'],
}
