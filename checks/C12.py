"""C12 FITS region tables round-trip every supported pixel region."""
import functools
import importlib
import warnings

import numpy as np
import z3
import astropy.units as u

from vf import chk, symx, kernels
from vf.chk import And, Or, Not, Implies, Iff, If

SUPPORTED = ['point', 'circle', 'ellipse', 'annulus-circle', 'annulus-ellipse', 'rectangle', 'polygon', 'regpoly']
UNSUPPORTED = ['annulus-rectangle', 'line', 'text', 'compound', 'sky-circle']


def _shims(m):
    if m.sym:
        m.shim('regions.core.pixcoord', 'np', kernels.NPFacade())
        m.shim('regions.io.fits.read', 'int', symx.sint)


def build(kind, m, pre, meta, aunit='deg'):
    import regions as R
    from regions import PixCoord, RegionMeta
    meta = RegionMeta(meta)
    r_ = lambda n: m.real(pre + n)
    p_ = lambda n: m.pos(pre + n)
    dt = object if m.sym else float
    if kind == 'point':
        return R.PointPixelRegion(PixCoord(r_('cx'), r_('cy')), meta=meta)
    if kind == 'circle':
        return R.CirclePixelRegion(PixCoord(r_('cx'), r_('cy')), p_('r'), meta=meta)
    if kind in ('ellipse', 'rectangle'):
        cls = R.EllipsePixelRegion if kind == 'ellipse' else R.RectanglePixelRegion
        return cls(PixCoord(r_('cx'), r_('cy')), p_('w'), p_('h'), angle=m.angle(pre + 'theta', aunit), meta=meta)
    if kind == 'annulus-circle':
        r1 = p_('r1')
        return R.CircleAnnulusPixelRegion(PixCoord(r_('cx'), r_('cy')), r1, r1 + p_('dr'), meta=meta)
    if kind in ('annulus-ellipse', 'annulus-rectangle'):
        cls = R.EllipseAnnulusPixelRegion if kind == 'annulus-ellipse' else R.RectangleAnnulusPixelRegion
        w1, h1 = p_('w1'), p_('h1')
        return cls(PixCoord(r_('cx'), r_('cy')), w1, w1 + p_('dw'), h1, h1 + p_('dh'), angle=m.angle(pre + 'theta', 'deg'), meta=meta)
    if kind in ('polygon', 'polygon4'):
        n = 3 if kind == 'polygon' else 4
        return R.PolygonPixelRegion(PixCoord(np.array([r_(f'x{i}') for i in range(n)], dtype=dt),
                                             np.array([r_(f'y{i}') for i in range(n)], dtype=dt)), meta=meta)
    if kind == 'regpoly':
        return R.RegularPolygonPixelRegion(PixCoord(r_('cx'), r_('cy')), 4, p_('rad'), angle=m.angle(pre + 'theta', 'deg'), meta=meta)
    if kind == 'line':
        return R.LinePixelRegion(PixCoord(r_('sx'), r_('sy')), PixCoord(r_('ex'), r_('ey')), meta=meta)
    if kind == 'text':
        return R.TextPixelRegion(PixCoord(r_('cx'), r_('cy')), 'txt', meta=meta)
    if kind == 'compound':
        return R.CirclePixelRegion(PixCoord(r_('cx'), r_('cy')), p_('r')) | R.CirclePixelRegion(PixCoord(r_('bx'), r_('by')), p_('r2'))
    if kind == 'sky-circle':
        from astropy.coordinates import SkyCoord
        return R.CircleSkyRegion(SkyCoord(10.0, 20.0, unit='deg'), 3 * u.arcsec, meta=meta)
    raise ValueError(kind)


def _geom(reg):
    from regions import PixCoord
    out = []
    for p in reg._params:
        v = getattr(reg, p)
        if isinstance(v, PixCoord):
            for a, b in zip(np.asarray(v.x, dtype=object).reshape(-1), np.asarray(v.y, dtype=object).reshape(-1)):
                out += [(p + '.x', a), (p + '.y', b)]
        elif isinstance(v, u.Quantity):
            w = v.to_value(u.deg)
            out.append((p, w[()] if isinstance(w, np.ndarray) else w))
        else:
            out.append((p, v))
    return out


def _same_geom(m, tag, a, b, key=None):
    ga, gb = _geom(a), _geom(b)
    names_a = [n for n, _ in ga]
    m.require(f'{tag}: same parameter list', names_a == [n for n, _ in gb][:len(names_a)] and
              (len(ga) == len(gb)), key='C12:polygon:padding' if key is None else key)
    for (n, x), (_, y) in zip(ga, gb):
        m.require(f'{tag}: {n} identical after the round trip', chk.Eq(x, y), key=key)


def _expected_cls(reg):
    import regions as R
    if isinstance(reg, R.RegularPolygonPixelRegion):
        return R.PolygonPixelRegion
    return type(reg)


def h_roundtrip(kinds, includes, components, m):
    """serialise a list to a FITS region table and parse it back"""
    from regions import Regions
    _shims(m)
    W = importlib.import_module('regions.io.fits.write')
    Rd = importlib.import_module('regions.io.fits.read')
    regs = []
    comps = []
    for i, (k, inc, comp) in enumerate(zip(kinds, includes, components)):
        meta = {}
        if inc != 'absent':
            meta['include'] = inc
        if comp == 'sym':
            cv = m.integer(f'comp{i}', lo=0, hi=100000)
            meta['component'] = cv
            comps.append(cv)
        elif comp is not None:
            meta['component'] = comp
            comps.append(comp)
        else:
            comps.append(None)
        au = 'deg'
        if '@' in k:
            k, au = k.split('@')
            kinds = list(kinds)
            kinds[i] = k
        regs.append(build(k, m, f'r{i}_', meta, aunit=au))
    before = [_geom(r) for r in regs]
    with warnings.catch_warnings(record=True) as wlist:
        warnings.simplefilter('always')
        tbl = W._serialize_fits(regs)
        back = Rd.parse_table(tbl)
    kept = [(i, r) for i, r in enumerate(regs) if kinds[i] in SUPPORTED + ['polygon4']]
    skipped = [i for i in range(len(regs)) if kinds[i] not in SUPPORTED + ['polygon4']]
    m.require('one parsed region per FITS-representable input region', len(back) == len(kept))
    m.require('each skipped member produced a warning', len([w for w in wlist if 'skipping' in str(w.message)]) >= len(skipped))
    if len(back) != len(kept):
        return
    got_comps = []
    for (i, orig), new in zip(kept, back):
        tag = f'#{i} {kinds[i]}'
        m.require(f'{tag}: same class (regular polygons come back as polygons)', type(new) is _expected_cls(orig))
        if type(new) is not _expected_cls(orig):
            continue
        excluded = includes[i] != 'absent' and not bool(includes[i])
        ref = orig.to_polygon() if kinds[i] == 'regpoly' else orig
        key = None
        if excluded and kinds[i] in ('ellipse', 'annulus-ellipse'):
            key = 'C12:excluded:axes'
        _same_geom(m, tag, ref, new, key=key)
        m.require(f'{tag}: exclude flag preserved', (not bool(new.meta.get('include', 1))) == excluded,
                  key='C12:include-lost-with-component' if any(c is not None for c in comps) else None)
        got_comps.append(new.meta.get('component', None))
    # component numbers
    given = [comps[i] for i, _ in kept]
    if any(c is not None for c in given):
        for (i, _), g, c in zip(kept, got_comps, given):
            if c is not None:
                m.require(f'#{i}: the given component number is preserved', chk.Eq(g, c) if g is not None else False)
        fresh = [g for g, c in zip(got_comps, given) if c is None]
        olds = [c for c in given if c is not None]
        for a in range(len(fresh)):
            m.require('a fresh component number is assigned', fresh[a] is not None)
            if fresh[a] is None:
                continue
            for o in olds:
                m.require('fresh component numbers differ from all given ones', Not(fresh[a] == o))
            for b in range(a + 1, len(fresh)):
                if fresh[b] is not None:
                    m.require('fresh component numbers are pairwise distinct', Not(fresh[a] == fresh[b]))
    # inputs untouched
    m.require('input regions are not modified', all(
        all((x is y) or (not symx.is_sym(x) and not symx.is_sym(y) and x == y) or
            (isinstance(x, symx.SymReal) and isinstance(y, symx.SymReal) and z3.simplify(x.t).eq(z3.simplify(y.t)))
            for (_, x), (_, y) in zip(b4, _geom(r))) for b4, r in zip(before, regs)))
    # fixed point: parse -> serialise -> parse
    with warnings.catch_warnings():
        warnings.simplefilter('ignore')
        again = Rd.parse_table(W._serialize_fits(back))
    m.require('parse -> serialise -> parse: same number of regions', len(again) == len(back))
    if len(again) == len(back):
        for j, (a, b) in enumerate(zip(back, again)):
            if type(a) is type(b):
                _same_geom(m, f'fixed point #{j}', a, b, key='C12:fixed-point')


def h_reader_notations(m):
    """tables in the other accepted notations: box / rectangle / rotrectangle / default point"""
    from astropy.table import QTable
    Rd = importlib.import_module('regions.io.fits.read')
    import regions as R
    _shims(m)
    x0, x1, y0, y1 = m.real('x0'), m.real('x1'), m.real('y0'), m.real('y1')
    ang = m.real('ang')
    if m.sym:
        Q = lambda vals, unit: u.Quantity(np.array(vals, dtype=object), unit, dtype=object)
    else:
        Q = lambda vals, unit: u.Quantity(np.array(vals, dtype=float), unit)
    t = QTable()
    t['SHAPE'] = ['rectangle', 'rotrectangle', 'box', '!BOX']
    t['X'] = Q([[x0, x1], [x0, x1], [x0, 0], [x0, 0]], u.pix)
    t['Y'] = Q([[y0, y1], [y0, y1], [y0, 0], [y0, 0]], u.pix)
    wv, hv = m.pos('w'), m.pos('h')
    t['R'] = Q([[0, 0], [0, 0], [wv, hv], [wv, hv]], u.pix)
    t['ROTANG'] = Q([0, ang, ang, 0], u.deg)            # a ROTANG cell in a 'box' row is not part of that notation
    m.assume(x0 < x1)
    m.assume(y0 < y1)
    regs = Rd.parse_table(t)
    m.require('four rectangles', len(regs) == 4 and all(isinstance(r, R.RectanglePixelRegion) for r in regs))
    if len(regs) != 4:
        return
    for k in (0, 1):
        r = regs[k]
        m.require(f'corner form #{k}: centre is the mid-point, sizes are the differences',
                  And(2 * r.center.x == x0 + x1, 2 * r.center.y == y0 + y1, r.width == x1 - x0, r.height == y1 - y0))
    a1 = regs[1].angle.to_value(u.deg)
    m.require('rotrectangle keeps its angle', (a1[()] if isinstance(a1, np.ndarray) else a1) == ang)
    for k in (2, 3):
        r = regs[k]
        m.require(f'box #{k}: centre and full sizes', And(r.center.x == x0, r.center.y == y0, r.width == wv, r.height == hv))
    m.require("'!' marks exclusion, case-insensitively", regs[3].meta.get('include', 1) == 0 and regs[2].meta.get('include', 1) == 1)
    a2 = regs[2].angle.to_value(u.deg)
    m.require("'box' is unrotated whatever its ROTANG cell holds", chk.Eq(a2[()] if isinstance(a2, np.ndarray) else a2, 0))
    # the same unrotated notations in a table that has no ROTANG column at all
    t2 = QTable()
    t2['SHAPE'] = ['box', 'rectangle', '!box', 'circle']
    t2['X'] = Q([[x0, 0], [x0, x1], [x1, 0], [x0, 0]], u.pix)
    t2['Y'] = Q([[y0, 0], [y0, y1], [y1, 0], [y0, 0]], u.pix)
    t2['R'] = Q([[wv, hv], [0, 0], [hv, wv], [wv, 0]], u.pix)
    with warnings.catch_warnings():
        warnings.simplefilter('ignore')
        regs2 = Rd.parse_table(t2)
    m.require('a table without a ROTANG column: every unrotated row is read', len(regs2) == 4)
    if len(regs2) == 4:
        m.require('box without ROTANG column: centre and full sizes',
                  And(regs2[0].center.x == x0, regs2[0].center.y == y0, regs2[0].width == wv, regs2[0].height == hv,
                      regs2[2].center.x == x1, regs2[2].width == hv, regs2[2].meta.get('include', 1) == 0))
        # parse -> serialise -> parse is a fixed point for foreign notations too
        Wr = importlib.import_module('regions.io.fits.write')
        again = Rd.parse_table(Wr._serialize_fits(R.Regions(regs2)))
        m.require('fixed point from a foreign-notation table: same number and classes', len(again) == 4 and all(type(a) is type(b) for a, b in zip(again, regs2)))
        if len(again) == 4:
            for k_, (a, b) in enumerate(zip(regs2, again)):
                _same_geom(m, f'fixed point #{k_}', a, b)


def harnesses(tier):
    P = functools.partial
    q = tier == 'quick'
    hs = []
    for k in SUPPORTED:
        for inc in (['absent', 0, False] if q else ['absent', True, False, 0, 1]):
            hs.append((f'single/{k}/include={inc}', P(h_roundtrip, [k], [inc], [None])))
        hs.append((f'single/{k}/component', P(h_roundtrip, [k], ['absent'], ['sym'])))
        hs.append((f'single/{k}/component+excluded', P(h_roundtrip, [k], [0], ['sym'])))
    lists = [
        (['circle', 'ellipse', 'polygon4'], ['absent', 'absent', 'absent'], [None, None, None]),
        (['polygon4', 'circle', 'annulus-ellipse'], ['absent', 0, 'absent'], [None, None, None]),
        (['circle', 'line', 'rectangle'], ['absent', 'absent', 'absent'], [None, None, None]),
        (['compound', 'circle', 'sky-circle', 'point'], ['absent', 'absent', 'absent', 'absent'], [None, None, None, None]),
        (['circle', 'point', 'ellipse'], ['absent', 'absent', 'absent'], ['sym', None, 'sym']),
        (['circle', 'point'], ['absent', 'absent'], [None, None]),
        (['text', 'annulus-rectangle'], ['absent', 'absent'], [None, None]),
        (['polygon', 'polygon4'], ['absent', 'absent'], [None, None]),
        (['ellipse', 'rectangle@rad', 'ellipse@arcmin'], ['absent', 'absent', 'absent'], [None, None, None]),
    ]
    if not q:
        lists += [
            (['point', 'circle', 'ellipse', 'annulus-circle', 'rectangle'], ['absent', 0, 'absent', False, 'absent'], [None] * 5),
            (['circle', 'circle', 'circle', 'circle'], ['absent'] * 4, ['sym', None, None, 'sym']),
            (['polygon', 'polygon4', 'regpoly'], ['absent'] * 3, [None] * 3),
        ]
    for i, (ks, incs, cs) in enumerate(lists):
        hs.append((f'list{i}/{"+".join(ks)}', P(h_roundtrip, ks, incs, cs)))
    hs.append(('reader-notations', h_reader_notations))
    return hs


def cases(tier, seed):
    return [(name, functools.partial(chk.run_case, 'C12', name, h, max_paths=800)) for name, h in harnesses(tier)]


META = {
    'functions_encoded': ['regions.io.fits.write._serialize_fits/_serialize_region_fits/_make_column/_define_components/_make_table',
                          'regions.io.fits.read.parse_table/parse_row/get_shape/get_column_values/get_shape_params', 'regions.io.fits.core.shape_map'],
    'bounds': {'quick': {'classes': SUPPORTED, 'payload': 'all coordinates / sizes / vertices symbolic reals, component numbers symbolic integers in [0, 1000]',
                         'include': ['absent', 0, False], 'lists': '7 mixed lists of length 2-4 (padding to a common column width, unsupported members, partial components)'},
               'thorough': {'include': ['absent', True, False, 0, 1], 'lists': '10 lists up to length 5'}},
    'outside_claim': ['the file layer (BinTableHDU.writeto, fits.open, QTable.read): binary I/O in astropy; covered only by the event model of C14',
                      'lists longer than 5; polygons with more than 4 vertices'],
    'stubs': ['astropy.units.Quantity.__new__: object dtype for symbolic payloads, stacking of lists of symbolic quantities (what astropy does before its dtype check)',
              'the table container is the real astropy QTable'],
    'assumptions': ['floats are interpreted as reals'],
}
