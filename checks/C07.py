"""C07 a sky region's pixel image has the size and orientation the WCS dictates."""
import functools
import math

import numpy as np
import z3
import astropy.units as u

from vf import chk, oracle as O, symx, kernels
from vf.chk import And, Or, Not, Implies, Iff, If
from vf.wcsstub import AffineWCS


def _shims(m):
    if m.sym:
        m.shim('regions.core.pixcoord', 'np', kernels.NPFacade())


def _sky(lon, lat, frame='icrs'):
    from astropy.coordinates import SkyCoord
    return SkyCoord(lon, lat, unit='deg', frame=frame)


def _close_rel(a, b, rel=1e-9):
    """|a - b| <= rel * |b|  (b > 0)"""
    return And(a - b <= rel * b, b - a <= rel * b)


def _probe_lemma(m, w, c):
    """proof guidance: the 1-arcsec northward probe of the scale/angle helper has pixel length
    (latitude step) / s under the affine WCS (proved first, then available to the later goals)"""
    if not m.sym:
        return
    off = c.directional_offset_by(0.0 * u.deg, 1 * u.arcsec)
    ex, ey = w.world_to_pixel(c)
    xo, yo = w.world_to_pixel(off)
    dx, dy = xo - ex, yo - ey
    h = np.hypot(dx, dy)
    from fractions import Fraction

    def uv(sky):
        sph = sky.spherical
        dl_ = (float(sph.lon.deg) - w.lon0) * float(np.cos(np.deg2rad(w.lat0)))
        db_ = float(sph.lat.deg) - w.lat0
        return symx.fraction_of_float(w.parity * dl_), symx.fraction_of_float(db_)
    (u0, v0), (u1, v1) = uv(c), uv(off)
    dl, db = u1 - u0, v1 - v0
    m.lemma('probe displacement has length sqrt(dlon^2 + dlat^2) / s', h * w.s * h * w.s == dl * dl + db * db)
    m.lemma('probe length is positive', h > 0)


def _val(q, unit):
    v = q.to_value(unit) if isinstance(q, u.Quantity) else q
    return v[()] if isinstance(v, np.ndarray) else v


def h_to_pixel(kind, parity, sky_unit, centre, m, aunit='deg', mixed=False):
    import regions as R
    _shims(m)
    w = AffineWCS(m, lon0=10.0, lat0=20.0, parity=parity)
    c = _sky(*centre)
    Q = lambda v: u.Quantity(v, getattr(u, sky_unit), dtype=object if m.sym else float)
    per_arcsec = {'arcsec': 1.0, 'arcmin': 60.0, 'deg': 3600.0}[sky_unit]
    th = m.angle('theta', aunit) if kind not in ('circle', 'annulus-circle') else None
    sizes = {}
    if kind == 'circle':
        sizes = {'radius': m.pos('r')}
        reg = R.CircleSkyRegion(c, Q(sizes['radius']))
    elif kind in ('ellipse', 'rectangle'):
        sizes = {'width': m.pos('w'), 'height': m.pos('h')}
        cls = R.EllipseSkyRegion if kind == 'ellipse' else R.RectangleSkyRegion
        reg = cls(c, Q(sizes['width']), Q(sizes['height']), angle=th)
    elif kind == 'annulus-circle':
        r1 = m.pos('r1')
        sizes = {'inner_radius': r1, 'outer_radius': r1 + m.pos('dr')}
        if mixed:
            # the same radii written in different angular units (inner in arcmin, outer in the case's unit)
            inner_q = u.Quantity(sizes['inner_radius'] * (per_arcsec / 60.0), u.arcmin, dtype=object if m.sym else float)
            reg = R.CircleAnnulusSkyRegion(c, inner_q, Q(sizes['outer_radius']))
        else:
            reg = R.CircleAnnulusSkyRegion(c, Q(sizes['inner_radius']), Q(sizes['outer_radius']))
    else:
        w1, h1 = m.pos('w1'), m.pos('h1')
        sizes = {'inner_width': w1, 'outer_width': w1 + m.pos('dw'), 'inner_height': h1, 'outer_height': h1 + m.pos('dh')}
        cls = R.EllipseAnnulusSkyRegion if kind == 'annulus-ellipse' else R.RectangleAnnulusSkyRegion
        reg = cls(c, Q(sizes['inner_width']), Q(sizes['outer_width']), Q(sizes['inner_height']), Q(sizes['outer_height']), angle=th)
    _probe_lemma(m, w, c)
    pix = reg.to_pixel(w)
    ex, ey = w.world_to_pixel(c)
    m.require('pixel centre = WCS image of the sky centre', And(chk.Eq(pix.center.x, ex), chk.Eq(pix.center.y, ey)))
    # true local scale: one pixel spans s degrees -> an angular size a (arcsec) spans a / (3600 s) pixels
    for name, a in sizes.items():
        got = getattr(pix, name)
        want = a * per_arcsec / (3600 * w.s)
        m.require(f'{name} in pixels = angular size / local pixel scale (to 1e-9 relative)', _close_rel(got, want))
    if th is not None:
        pc, ps = symx.angle_cs(pix.angle)
        (nx, ny), _ = w.north_unit()
        # reference direction: local north turned 90 deg clockwise; the width axis is that direction
        # turned counter-clockwise by the sky angle
        rx, ry = ny, -nx
        tc, ts = symx.angle_cs(th)
        wx, wy = rx * tc - ry * ts, ry * tc + rx * ts
        m.require('width axis makes the stated angle with (local north - 90 deg), counter-clockwise in the image',
                  And(chk.Eq(pc, wx, 1e-9), chk.Eq(ps, wy, 1e-9)))
    # sky points at the angular semi-axis from the centre land on the pixel shape boundary:
    # along the width axis at 0.999 / 1.001 of the half width
    from regions import PixCoord
    if kind in ('circle',):
        half = (sizes.get('radius') if kind == 'circle' else sizes['width'] / 2) * per_arcsec / (3600 * w.s)
        if th is None:
            ux, uy = 1.0, 0.0
        else:
            ux, uy = wx, wy
        pin = PixCoord(ex + 0.999 * half * ux, ey + 0.999 * half * uy)
        pout = PixCoord(ex + 1.001 * half * ux, ey + 1.001 * half * uy)
        m.require('a point at 0.999 of the semi-axis from the centre is inside the pixel shape', pix.contains(pin))
        m.require('a point at 1.001 of the semi-axis from the centre is outside the pixel shape', Not(pix.contains(pout)))


def h_to_sky(kind, parity, m):
    """the reverse direction: angular sizes = pixel sizes x local scale, sky angle = pixel angle - (north - 90)"""
    import regions as R
    from regions import PixCoord
    _shims(m)
    w = AffineWCS(m, parity=parity)
    c = _sky(10.0005, 20.0007)
    ex, ey = w.world_to_pixel(c)

    class _W:
        calls = w.calls

        def pixel_to_world(self, x, y):
            return c

        def world_to_pixel(self, sky):
            return w.world_to_pixel(sky)
    th = m.angle('theta', 'deg')
    _probe_lemma(m, w, c)
    if kind == 'circle':
        r = m.pos('r')
        sky = R.CirclePixelRegion(PixCoord(ex, ey), r).to_sky(_W())
        m.require('radius on the sky = pixel radius x local scale', _close_rel(_val(sky.radius, u.arcsec), r * 3600 * w.s))
        return
    wd, ht = m.pos('w'), m.pos('h')
    cls = R.EllipsePixelRegion if kind == 'ellipse' else R.RectanglePixelRegion
    sky = cls(PixCoord(ex, ey), wd, ht, angle=th).to_sky(_W())
    m.require('width on the sky = pixel width x local scale', _close_rel(_val(sky.width, u.arcsec), wd * 3600 * w.s))
    m.require('height on the sky = pixel height x local scale', _close_rel(_val(sky.height, u.arcsec), ht * 3600 * w.s))
    sc, ss = symx.angle_cs(sky.angle)
    (nx, ny), _ = w.north_unit()
    rx, ry = ny, -nx
    pc, ps = symx.angle_cs(th)
    # pixel width axis = reference turned by the sky angle
    m.require('sky angle is measured from (local north - 90 deg)',
              And(chk.Eq(pc, rx * sc - ry * ss, 1e-9), chk.Eq(ps, ry * sc + rx * ss, 1e-9)))


def h_wcs_mutation(m):
    """the conversion depends on the WCS as it is now: after the same WCS object is changed in
    place, a second conversion reflects the new scale and reference pixel"""
    import regions as R
    _shims(m)
    w = AffineWCS(m)
    c = _sky(10.0, 20.0)
    r = m.pos('r')
    Q = u.Quantity(r, u.arcsec, dtype=object if m.sym else float)
    reg = R.CircleSkyRegion(c, Q)
    _probe_lemma(m, w, c)
    first = reg.to_pixel(w)
    m.require('first conversion: radius = angular size / scale', _close_rel(first.radius, r / (3600 * w.s)))
    w.s = m.pos('scale2_deg_per_pix')
    w.x0 = m.real('crpix2_x')
    _probe_lemma(m, w, c)
    second = reg.to_pixel(w)
    ex, ey = w.world_to_pixel(c)
    m.require('after changing the WCS in place the centre follows the new reference pixel', And(chk.Eq(second.center.x, ex), chk.Eq(second.center.y, ey)))
    m.require('after changing the WCS in place the radius follows the new scale', _close_rel(second.radius, r / (3600 * w.s)))


def h_real_wcs_executed(m):
    """EXECUTED with a real astropy.wcs.WCS (no symbolic input; supplementary to the solver-decided cases, which use an affine stub):
    on a high-latitude tangent-plane WCS with coarse, rotated pixels, far from the reference pixel, the pixel ellipse has the size
    and orientation given by the LOCAL scale and the LOCAL north direction at the region centre (measured independently with a
    1-arcsec step along the meridian)"""
    import math
    from astropy.coordinates import SkyCoord
    from astropy.wcs import WCS
    from regions import EllipseSkyRegion
    for (lat0, dlon, dlat, rot) in ((80.0, 12.0, -1.5, 20.0), (-75.0, -9.0, 2.0, -35.0), (5.0, 1.0, 1.0, 0.0)):
        w = WCS(naxis=2)
        w.wcs.ctype = ['RA---TAN', 'DEC--TAN']
        w.wcs.crval = [40.0, lat0]
        w.wcs.crpix = [300.0, 300.0]
        w.wcs.cdelt = [-0.01, 0.01]
        c_, s_ = math.cos(math.radians(rot)), math.sin(math.radians(rot))
        w.wcs.pc = [[c_, -s_], [s_, c_]]
        centre = SkyCoord(40.0 + dlon, lat0 + dlat, unit='deg', frame='icrs')
        _check_real(m, w, centre, f'lat {lat0}')
    # region centres in OTHER frames than the WCS's (north is the north of the REGION's frame at the region centre), incl. frame attributes
    from astropy.coordinates import FK5, FK4
    w = WCS(naxis=2)
    w.wcs.ctype = ['RA---TAN', 'DEC--TAN']
    w.wcs.crval = [40.0, 30.0]
    w.wcs.crpix = [300.0, 300.0]
    w.wcs.cdelt = [-0.001, 0.001]
    base = SkyCoord(40.05, 30.04, unit='deg', frame='icrs')
    for nm, fr in (('galactic', 'galactic'), ('fk5 J1975', FK5(equinox='J1975')), ('fk4 B1950', FK4(equinox='B1950')), ('fk5 J2000', 'fk5')):
        c2 = base.transform_to(fr)
        centre = SkyCoord(c2.spherical.lon, c2.spherical.lat, frame=c2.frame.replicate_without_data())
        _check_real(m, w, centre, f'centre in {nm} on an ICRS image')


def _check_real(m, w, centre, tag):
    import math
    from regions import EllipseSkyRegion, CircleSkyRegion
    if True:
        lat0 = tag
        sky = EllipseSkyRegion(centre, 30 * u.arcsec, 12 * u.arcsec, angle=25 * u.deg)
        pix = sky.to_pixel(w)
        x0, y0 = w.world_to_pixel(centre)
        north = centre.directional_offset_by(0 * u.deg, 1 * u.arcsec)
        x1, y1 = w.world_to_pixel(north)
        step = math.hypot(x1 - x0, y1 - y0)                  # pixels per arcsec along the meridian
        north_angle = math.degrees(math.atan2(y1 - y0, x1 - x0))
        ang = float(pix.angle.to_value(u.deg))
        want = north_angle - 90.0 + 25.0
        diff = (ang - want + 180.0) % 360.0 - 180.0
        m.require(f'real WCS (lat {lat0}): centre is the pixel position of the sky centre', abs(pix.center.x - x0) < 1e-6 and abs(pix.center.y - y0) < 1e-6)
        m.require(f'real WCS (lat {lat0}): orientation follows the local north at the region centre', abs(diff) < 1e-3)
        m.require(f'real WCS (lat {lat0}): sizes follow the local scale', abs(pix.width / (30 * step) - 1) < 1e-4 and abs(pix.height / (12 * step) - 1) < 1e-4)
        circ = CircleSkyRegion(centre, 15 * u.arcsec).to_pixel(w)
        m.require(f'real WCS (lat {lat0}): circle radius follows the local scale', abs(circ.radius / (15 * step) - 1) < 1e-4)


def harnesses(tier):
    P = functools.partial
    q = tier == 'quick'
    hs = [('real-wcs/high-latitude-off-centre (executed)', h_real_wcs_executed)]
    centres = [(10.0, 20.0), (10.003, 19.998)] if q else [(10.0, 20.0), (10.003, 19.998), (9.99, 20.01)]
    for kind in ('circle', 'ellipse', 'rectangle', 'annulus-circle', 'annulus-ellipse', 'annulus-rectangle'):
        for parity in (-1, 1):
            for unit in (['arcsec'] if q else ['arcsec', 'arcmin', 'deg']):
                for ci, c in enumerate(centres if kind in ('circle', 'annulus-circle') else centres[:1]):
                    if ci > 0 and (unit != 'arcsec' or ci > 1):
                        continue          # off-reference centres carry 50-digit rationals: only arcsec / centre1 is decided reliably
                    hs.append((f'to_pixel/{kind}/parity={parity}/{unit}/centre{ci}', P(h_to_pixel, kind, parity, unit, c)))
    for kind in ('ellipse', 'rectangle', 'annulus-ellipse'):
        for au in ('rad', 'arcmin'):
            hs.append((f'to_pixel/{kind}/sky-angle-unit={au}', P(h_to_pixel, kind, -1, 'arcsec', (10.0, 20.0), aunit=au)))
    hs.append(('to_pixel/annulus-circle/mixed-units', P(h_to_pixel, 'annulus-circle', -1, 'arcsec', (10.0, 20.0), mixed=True)))
    hs.append(('wcs-changed-in-place/circle', h_wcs_mutation))
    for kind in ('circle',):
        for parity in (-1, 1):
            hs.append((f'to_sky/{kind}/parity={parity}', P(h_to_sky, kind, parity)))
    return hs


def cases(tier, seed):
    return [(name, functools.partial(chk.run_case, 'C07', name, h, max_paths=600)) for name, h in harnesses(tier)]


META = {
    'functions_encoded': ['regions._utils.wcs_helpers.pixel_scale_angle_at_skycoord', 'to_pixel of Circle/Ellipse/Rectangle/three annulus sky regions',
                          'to_sky of Circle/Ellipse/Rectangle pixel regions', 'contains of the resulting pixel regions (boundary points)'],
    'bounds': {'quick': {'WCS': 'affine (tangent-plane) WCS: any scale s > 0, any rotation (unit-circle atom), both parities, any reference pixel',
                         'sizes / sky angle': 'unbounded positive reals / any angle', 'sky centres': '2 concrete centres near the reference point'},
               'thorough': {'size units': ['arcsec', 'arcmin', 'deg'] + [' (at the reference centre; the second centre with arcsec only: the probe-offset lemma for off-reference centres with other units ran into solver timeouts)'], 'sky centres': 2}},
    'outside_claim': ['real astropy.wcs.WCS objects are used only by ONE EXECUTED case (real-wcs/high-latitude-off-centre: three concrete TAN WCSs, an execution of the real library, not a solver verdict)', 'to_sky of ellipses/rectangles is covered by composition: C06 proves to_sky inverts to_pixel for every local scale/orientation, C07 proves to_pixel absolute (a direct to_sky obligation for ellipses made z3 time out)', 'boundary-point obligations (0.999/1.001 of the semi-axis) only for circles; for ellipses/rectangles they follow from size + orientation + C01', 'curvature of the sphere over the 1-arcsec probe, non-conformal or distorted WCSs, |lat| limits, other celestial frames: the '
                      'stub is the linearisation of an undistorted celestial WCS at the reference point',
                      'the probe offset of astropy (0.000277777777775 deg instead of 1/3600) makes sizes agree to 1e-11 relative; obligations use 1e-9'],
    'stubs': ['AffineWCS (vf/wcsstub.py): pixel = P0 + (1/s) R(rho) diag(parity,1) ((lon-lon0)cos(lat0), lat-lat0); real SkyCoord centres; '
              'SkyCoord.directional_offset_by is astropy\'s'],
    'assumptions': ['floats are interpreted as reals', 'rotation angle is a unit-circle atom'],
}
