"""C20 PixCoord behaves as broadcast (x, y) arrays under every operation."""
import functools
import itertools

import numpy as np
import astropy.units as u

from vf import chk, symx
from vf.chk import And, Or, Not, Implies, Iff, If


def _arr(m, name, shape):
    """array of fresh reals of the given shape (() -> scalar); a shape given as ('T', n, k) is the transpose of a (k, n) array,
    i.e. an (n, k) array that is not C-contiguous"""
    if shape and shape[0] == 'T':
        return _arr(m, name, (shape[2], shape[1])).T
    if shape == ():
        return m.real(name)
    dt = object if m.sym else float
    a = np.empty(shape, dtype=dt)
    for idx in np.ndindex(*shape):
        a[idx] = m.real(name + '_' + '_'.join(map(str, idx)))
    return a


def _eq_all(a, b):
    a, b = np.asarray(a, dtype=object), np.asarray(b, dtype=object)
    if a.shape != b.shape:
        return False
    return And(*[a[i] == b[i] for i in np.ndindex(*a.shape)]) if a.size else True


SHAPE_PAIRS = [((), ()), ((), (3,)), ((3,), ()), ((3,), (3,)), ((2, 2), (2, 2)), ((1, 3), (3, 1)), ((2,), (2, 2)),
               ((0,), ()), ((0,), (0,))]
BAD_PAIRS = [((2,), (3,)), ((2, 2), (3,))]


def h_construct(sx, sy, m):
    from regions import PixCoord
    if sx == () and sy == ():
        # each component keeps its own values whatever the other component's dtype is (integers are not pushed through floats)
        big = 2 ** 53 + 1
        pi_ = PixCoord(big, 0.5)
        m.require('an integer component next to a float component keeps its exact value', int(pi_.x) == big and pi_.y == 0.5)
        pa = PixCoord(np.array([big, 3]), np.array([0.5, 1.5]))
        m.require('an integer array next to a float array keeps its exact values', [int(v) for v in pa.x] == [big, 3] and list(pa.y) == [0.5, 1.5])
    x, y = _arr(m, 'x', sx), _arr(m, 'y', sy)
    p = PixCoord(x, y)
    bx, by = np.broadcast_arrays(np.asarray(x, dtype=object), np.asarray(y, dtype=object))
    m.require('x, y hold the broadcast values', And(_eq_all(p.x, bx), _eq_all(p.y, by)))
    m.require('shape is the broadcast shape', np.shape(p.x) == bx.shape and np.shape(p.y) == by.shape)
    m.require('isscalar iff both inputs are scalars', p.isscalar == (sx == () and sy == ()))
    if bx.shape == ():
        m.require('a scalar pair stays scalar (not a 0-d array)',
                  not isinstance(p.x, np.ndarray) and not isinstance(p.y, np.ndarray))
        try:
            len(p)
            m.require('len() of a scalar coordinate raises TypeError', False)
        except TypeError:
            m.require('len() of a scalar coordinate raises TypeError', True)
        try:
            p[0]
            m.require('indexing a scalar coordinate raises IndexError', False)
        except IndexError:
            m.require('indexing a scalar coordinate raises IndexError', True)
    else:
        m.require('len agrees with the x array', len(p) == len(bx))
        items = list(p)
        m.require('iteration yields len(p) coordinates', len(items) == len(bx))
        for k, it in enumerate(items):
            m.require(f'iteration element {k} equals (x[{k}], y[{k}])', And(_eq_all(it.x, bx[k]), _eq_all(it.y, by[k])))
    m.require('xy is the pair (x, y)', p.xy[0] is p.x and p.xy[1] is p.y)


def h_construct_bad(sx, sy, m):
    from regions import PixCoord
    x, y = _arr(m, 'x', sx), _arr(m, 'y', sy)
    try:
        PixCoord(x, y)
        m.require('non-broadcastable shapes are rejected', False)
    except ValueError:
        m.require('non-broadcastable shapes are rejected', True)


KEYS_1D = [0, -1, 2, slice(None), slice(1, None), slice(None, None, -1), slice(0, 0), [0, 2], [True, False, True],
           np.array([2, 0, 0]), Ellipsis, np.array([True, False, True]), [], [False, False, False], np.array([], dtype=int)]
KEYS_2D = [0, -1, (0, 1), (slice(None), 0), (1, slice(None)), slice(0, 1), (Ellipsis, 1),
           np.array([[True, False], [False, True]]), (np.array([0, 1]), np.array([1, 0])), None]


def h_getitem(shape, m):
    from regions import PixCoord
    x, y = _arr(m, 'x', shape), _arr(m, 'y', shape)
    p = PixCoord(x, y)
    keys = KEYS_1D if len(shape) == 1 else KEYS_2D
    for k, key in enumerate(keys):
        ex = ey = None
        raw = key                         # plain Python lists are handed to PixCoord as they are (numpy treats them like arrays)
        try:
            ex, ey = x[raw], y[raw]
        except Exception as e:  # noqa
            ex = type(e)
        try:
            q = p[raw]
        except Exception as e:  # noqa
            m.require(f'key #{k} {key!r:.30}: raises like numpy', ex is type(e))
            continue
        m.require(f'key #{k} {key!r:.30}: no exception where numpy raises none', not isinstance(ex, type))
        if isinstance(ex, type):
            continue
        m.require(f'key #{k} {key!r:.30}: element-for-element equal to indexing x and y',
                  And(_eq_all(q.x, ex), _eq_all(q.y, ey)))
        m.require(f'key #{k} {key!r:.30}: result is a PixCoord of the numpy shape',
                  isinstance(q, PixCoord) and np.shape(q.x) == np.shape(ex))
    for bad in (3, -4, (0, 0, 0)):
        try:
            p[bad]
            ok = False
        except IndexError:
            ok = True
        if len(shape) == 1 or bad == (0, 0, 0):
            m.require(f'out-of-range key {bad} raises IndexError', ok)


def h_arith(sa, sb, m):
    from regions import PixCoord
    a = PixCoord(_arr(m, 'ax', sa), _arr(m, 'ay', sa))
    b = PixCoord(_arr(m, 'bx', sb), _arr(m, 'by', sb))
    s = a + b
    d = a - b
    ax, bx = np.broadcast_arrays(np.asarray(a.x, dtype=object), np.asarray(b.x, dtype=object))
    ay, by = np.broadcast_arrays(np.asarray(a.y, dtype=object), np.asarray(b.y, dtype=object))
    m.require('+ is component-wise', And(_eq_all(s.x, ax + bx), _eq_all(s.y, ay + by)))
    m.require('- is component-wise', And(_eq_all(d.x, ax - bx), _eq_all(d.y, ay - by)))
    back = s - b
    m.require('(a + b) - b == a', And(_eq_all(back.x, ax), _eq_all(back.y, ay)))
    back2 = d + b
    m.require('(a - b) + b == a', And(_eq_all(back2.x, ax), _eq_all(back2.y, ay)))
    m.require('results are new PixCoord objects', isinstance(s, PixCoord) and s is not a and s is not b)
    sep = a.separation(b)
    sep = np.asarray(sep, dtype=object)
    m.require('separation has the broadcast shape', sep.shape == ax.shape)
    for i in np.ndindex(*ax.shape):
        dx, dy = ax[i] - bx[i], ay[i] - by[i]
        m.require(f'separation{list(i)} is the Euclidean distance',
                  And(sep[i] >= 0, sep[i] * sep[i] == dx * dx + dy * dy))
    sep2 = np.asarray(b.separation(a), dtype=object)
    m.require('separation is symmetric', _eq_all(sep, sep2))
    for other in (1, (1, 2), None):
        for opn in ('__add__', '__sub__'):
            try:
                getattr(a, opn)(other)
                ok = False
            except TypeError:
                ok = True
            m.require(f'{opn} with a non-PixCoord raises TypeError', ok)


def h_rotate(shape, au, m):
    from regions import PixCoord
    p = PixCoord(_arr(m, 'px', shape), _arr(m, 'py', shape))
    q = PixCoord(_arr(m, 'qx', shape), _arr(m, 'qy', shape))
    c = PixCoord(m.real('cx'), m.real('cy'))
    al = m.angle('alpha', au)
    be = m.angle('beta', au)
    rp, rq = p.rotate(c, al), q.rotate(c, al)
    m.require('rotation returns a new PixCoord of the same shape',
              isinstance(rp, PixCoord) and rp is not p and np.shape(rp.x) == np.shape(p.x))
    ca, sa = symx.angle_cs(al)
    px, py = np.asarray(p.x, dtype=object), np.asarray(p.y, dtype=object)
    rx, ry = np.asarray(rp.x, dtype=object), np.asarray(rp.y, dtype=object)
    for i in np.ndindex(*px.shape):
        dx, dy = px[i] - c.x, py[i] - c.y
        m.require(f'rotation{list(i)} is the counter-clockwise rotation about the centre',
                  And(rx[i] == c.x + ca * dx - sa * dy, ry[i] == c.y + sa * dx + ca * dy))
    d0 = np.asarray(p.separation(q), dtype=object)
    d1 = np.asarray(rp.separation(rq), dtype=object)
    for i in np.ndindex(*d0.shape):
        m.require(f'rotation is an isometry{list(i)}', d0[i] * d0[i] == d1[i] * d1[i])
    rc = c.rotate(c, al)
    m.require('rotation fixes its centre', And(rc.x == c.x, rc.y == c.y))
    two = p.rotate(c, al).rotate(c, be)
    one = p.rotate(c, al + be)
    m.require('rotations compose additively in the angle', And(_eq_all(two.x, one.x), _eq_all(two.y, one.y)))
    back = rp.rotate(c, -al)
    m.require('rotating back restores the coordinates', And(_eq_all(back.x, px), _eq_all(back.y, py)))
    m.require('original is untouched', And(_eq_all(p.x, px), _eq_all(p.y, py)))


def h_copy_eq(shape, m):
    from regions import PixCoord
    x, y = _arr(m, 'x', shape), _arr(m, 'y', shape)
    p = PixCoord(x, y)
    q = p.copy()
    m.require('copy holds equal values', And(_eq_all(q.x, p.x), _eq_all(q.y, p.y)))
    m.require('copy is a distinct object', q is not p)
    if shape != ():
        m.require('copy shares no array with the original',
                  q.x is not p.x and q.y is not p.y and not np.shares_memory(q.x, p.x) and not np.shares_memory(q.y, p.y))
        # mutating the copy does not show in the original
        before = [v for v in np.asarray(p.x, dtype=object).reshape(-1)]
        q.x.reshape(-1)[0] = 12345.0
        after = [v for v in np.asarray(p.x, dtype=object).reshape(-1)]
        m.require('editing the copy leaves the original unchanged', all(a is b or a == b for a, b in zip(before, after))
                  if not m.sym else all(a is b for a, b in zip(before, after)))
    m.require('comparison with a non-PixCoord is False', (p == 1) is False and (p == (1, 2)) is False)


class FakeWCS:
    """opaque invertible WCS: records how it is called"""
    def __init__(self):
        self.calls = []


class FakeSky:
    def __init__(self, xp, yp, wcs, origin, mode):
        self.xp, self.yp, self.wcs, self.origin, self.mode = xp, yp, wcs, origin, mode

    @classmethod
    def from_pixel(cls, xp, yp, wcs, origin=0, mode='all'):
        wcs.calls.append(('from_pixel', origin, mode))
        return cls(xp, yp, wcs, origin, mode)

    def to_pixel(self, wcs, origin=0, mode='all'):
        wcs.calls.append(('to_pixel', origin, mode))
        # an invertible WCS returns the pixel coordinates in the convention asked for
        shift = origin - self.origin
        return self.xp + shift, self.yp + shift


def h_sky(shape, origin, mode, m):
    from regions import PixCoord
    m.shim('regions.core.pixcoord', 'SkyCoord', FakeSky, both=True)
    x, y = _arr(m, 'x', shape), _arr(m, 'y', shape)
    p = PixCoord(x, y)
    w = FakeWCS()
    kw = {}
    if origin is not None:
        kw['origin'] = origin
    if mode is not None:
        kw['mode'] = mode
    sky = p.to_sky(w, **kw)
    eo, em = (0 if origin is None else origin), ('all' if mode is None else mode)
    m.require('to_sky hands x, y (in this order), origin and mode to SkyCoord.from_pixel unchanged',
              sky.xp is p.x and sky.yp is p.y and sky.origin == eo and sky.mode == em and sky.wcs is w)
    back = PixCoord.from_sky(sky, w, **kw)
    m.require('from_sky forwards origin and mode unchanged', w.calls[-1] == ('to_pixel', eo, em))
    m.require('pixel -> sky -> pixel returns the starting coordinates', And(_eq_all(back.x, p.x), _eq_all(back.y, p.y)))
    m.require('round trip keeps scalar-ness and shape', back.isscalar == p.isscalar and np.shape(back.x) == np.shape(p.x))


def h_separation_int_dtypes(m):
    """separation between coordinates held in fixed-width integer arrays (outside the real-number model of the symbolic cases):
    offsets that fit the dtype while their squares do not (executed)"""
    from regions import PixCoord
    for dt, off in (('int8', 12), ('int16', 200), ('int32', 50000), ('int64', 4_000_000_000), ('float32', 3.0e20)):
        a = PixCoord(np.array([0, 1], dtype=dt), np.array([0, 2], dtype=dt))
        b = PixCoord(np.array([off, 1], dtype=dt), np.array([0, 2], dtype=dt))
        c = PixCoord(np.array([3, 1], dtype=dt), np.array([4, 2], dtype=dt))
        for p_, q_, exp in ((b, a, [float(off), 0.0]), (c, a, [5.0, 0.0])):
            got = np.asarray(p_.separation(q_), dtype=float)
            m.require(f'separation of {dt} coordinates is the Euclidean distance (offset {off})',
                      got.shape == (2,) and bool(np.all(np.isfinite(got))) and bool(np.allclose(got, exp, rtol=1e-6, atol=0)))


def harnesses(tier):
    P = functools.partial
    q = tier == 'quick'
    hs = []
    for sx, sy in SHAPE_PAIRS:
        hs.append((f'construct/{sx}x{sy}', P(h_construct, sx, sy)))
    for sx, sy in BAD_PAIRS:
        hs.append((f'construct-bad/{sx}x{sy}', P(h_construct_bad, sx, sy)))
    hs.append(('getitem/(3,)', P(h_getitem, (3,))))
    hs.append(('getitem/(2,2)', P(h_getitem, (2, 2))))
    for sa, sb in ([((), ()), ((2,), (2,)), ((), (2,))] if q else [((), ()), ((2,), (2,)), ((), (2,)), ((2, 1), (1, 2)), ((3,), (3,))]):
        hs.append((f'arith/{sa}{sb}', P(h_arith, sa, sb)))
    for shape in ([(), (2,), (1, 2), (2, 2), ('T', 2, 2)] if q else [(), (2,), (1, 2), (2, 2), (2, 1, 2), ('T', 2, 2), ('T', 2, 3)]):
        for au in (['deg'] if q else ['deg', 'rad', 'arcmin']):
            hs.append((f'rotate/{shape}/{au}', P(h_rotate, shape, au)))
    for shape in [(), (3,), (2, 2)]:
        hs.append((f'copy-eq/{shape}', P(h_copy_eq, shape)))
    for shape in [(), (2,)]:
        for origin in (None, 0, 1):
            for mode in ((None, 'wcs') if q else (None, 'all', 'wcs')):
                hs.append((f'sky/{shape}/origin={origin}/mode={mode}', P(h_sky, shape, origin, mode)))
    hs.append(('separation/fixed-width-dtypes (executed)', h_separation_int_dtypes))
    return hs


def cases(tier, seed):
    return [(name, functools.partial(chk.run_case, 'C20', name, h)) for name, h in harnesses(tier)]


META = {
    'functions_encoded': ['regions.core.pixcoord.PixCoord.__init__/copy/isscalar/__len__/__iter__/__getitem__/__add__/'
                          '__sub__/__eq__/to_sky/from_sky/separation/xy/rotate'],
    'bounds': {'quick': {'shapes': 'scalar, (0,), (2,), (3,), (2,2), (1,3)+(3,1), non-broadcastable pairs; rotation on scalar, (2,), (1,2), (2,2) and a transposed (non-contiguous) (2,2)',
                         'index expressions': '11 1-D keys, 10 2-D keys', 'elements': 'unbounded reals',
                         'rotation': 'two arbitrary angles (unit-circle atoms), arbitrary centre'},
               'thorough': {'shapes': 'as quick + (2,1)+(1,2), (1,2); rotation also on (2,1,2)', 'angle_units': ['deg', 'rad', 'arcmin'],
                            'elements': 'unbounded reals'}},
    'outside_claim': ['real WCS numerics (astropy.wcs C code): the WCS is an opaque invertible stub; what is checked is '
                      'that x, y, origin and mode are forwarded unchanged in both directions',
                      'PixCoord.__eq__ tolerance semantics (np.allclose) is exercised in C16',
                      'integer dtypes: elements are reals (separation alone is also executed on int8..int64 and float32 arrays whose offsets fit the dtype while their squares do not); unsigned integer coordinate dtypes (numpy wraps negative differences)'],
    'stubs': ['regions.core.pixcoord.SkyCoord -> recording stand-in with from_pixel/to_pixel (opaque bijection WCS)',
              'astropy.units.Quantity.__new__: object dtype for symbolic payloads'],
    'assumptions': ['floats are interpreted as the real numbers they denote', 'angles are (cos, sin) pairs on the unit circle'],
}
