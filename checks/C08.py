"""C08 compound regions and annuli obey set algebra."""
import functools
import math
import operator

import numpy as np
import z3
import astropy.units as u

from vf import chk, oracle as O, symx, kernels
from vf.chk import And, Or, Not, Implies, Iff, If
from checks import C02

OPS = {'and': (operator.and_, And), 'or': (operator.or_, Or), 'xor': (operator.xor, chk.Xor)}
INCS = [('absent', None), ('True', True), ('False', False), ('0', 0)]


def _meta(inc):
    from regions import RegionMeta
    return RegionMeta() if inc is None else RegionMeta({'include': inc})


def _operand(kind, m, pre, inc=None):
    """(region, member(px,py) strict-in, strict-out) with the operand's own include flag folded in"""
    from regions import CirclePixelRegion, RectanglePixelRegion, EllipsePixelRegion, PixCoord
    cx, cy = m.real(pre + 'cx'), m.real(pre + 'cy')
    included = True if inc is None else bool(inc)
    if kind == 'circle':
        r = m.pos(pre + 'r')
        reg = CirclePixelRegion(PixCoord(cx, cy), r, meta=_meta(inc))
        fin, fout = (lambda px, py: O.disk_in(px, py, cx, cy, r)), (lambda px, py: O.disk_out(px, py, cx, cy, r))
    else:
        w, h = m.pos(pre + 'w'), m.pos(pre + 'h')
        ang = m.angle(pre + 'theta', 'deg')
        c, s = symx.angle_cs(ang)
        cls = RectanglePixelRegion if kind == 'rectangle' else EllipsePixelRegion
        reg = cls(PixCoord(cx, cy), w, h, angle=ang, meta=_meta(inc))
        fi, fo = (O.rect_in, O.rect_out) if kind == 'rectangle' else (O.ellipse_in, O.ellipse_out)
        fin, fout = (lambda px, py: fi(px, py, cx, cy, w, h, c, s)), (lambda px, py: fo(px, py, cx, cy, w, h, c, s))
    if included:
        return reg, fin, fout
    return reg, fout, fin      # excluded operand: member = strictly outside


def h_membership(op, ka, kb, inc_a, inc_b, inc_c, m):
    from regions import PixCoord, CompoundPixelRegion
    pyop, lop = OPS[op]
    a, ain, aout = _operand(ka, m, 'a_', inc_a)
    b, bin_, bout = _operand(kb, m, 'b_', inc_b)
    if inc_c == 'explicit-empty':
        # built through the public constructor with an explicitly given EMPTY meta / visual: an included compound of its own,
        # whatever the first operand's flags are
        from regions import RegionMeta, RegionVisual
        comp = CompoundPixelRegion(a, b, pyop, meta=RegionMeta(), visual=RegionVisual())
        m.require('an explicitly given empty meta is kept (not replaced by the first operand\'s)', dict(comp.meta) == {} and comp.meta is not a.meta)
        inc_c = True
    else:
        comp = {'and': a & b, 'or': a | b, 'xor': a ^ b}[op]
        m.require('operator builds a compound of the two operands with the matching Python operator',
                  isinstance(comp, CompoundPixelRegion) and comp.region1 is a and comp.region2 is b and comp.operator is pyop)
        if inc_c is not None:
            comp.meta = _meta(inc_c)
    px, py = m.real('px'), m.real('py')
    res = comp.contains(PixCoord(px, py))
    off = And(Or(ain(px, py), aout(px, py)), Or(bin_(px, py), bout(px, py)))
    want = lop(ain(px, py), bin_(px, py))
    # the compound created by the operator inherits region1's meta (documented): its include flag applies
    cinc = inc_c if inc_c is not None else inc_a
    if not (True if cinc is None else bool(cinc)):
        want = Not(want)
    m.require(f'membership = {op}(member_a, member_b), negated as a whole when the compound is excluded',
              Implies(off, Iff(res, want)))
    # array query
    dt = object if m.sym else float
    res2 = comp.contains(PixCoord(np.array([px, px], dtype=dt), np.array([py, py], dtype=dt)))
    m.require('array query has the query shape and the same answers', np.shape(res2) == (2,) and
              Implies(off, And(Iff(res2[0], want), Iff(res2[1], want))))


def h_nested(op1, op2, m):
    from regions import PixCoord
    a, ain, aout = _operand('circle', m, 'a_')
    b, bin_, bout = _operand('rectangle', m, 'b_')
    c, cin, cout = _operand('circle', m, 'c_', False)
    inner = {'and': a & b, 'or': a | b, 'xor': a ^ b}[op1]
    comp = {'and': inner & c, 'or': inner | c, 'xor': inner ^ c}[op2]
    deeper = {'and': c & comp, 'or': c | comp, 'xor': c ^ comp}[op1]
    px, py = m.real('px'), m.real('py')
    off = And(Or(ain(px, py), aout(px, py)), Or(bin_(px, py), bout(px, py)), Or(cin(px, py), cout(px, py)))
    w1 = OPS[op1][1](ain(px, py), bin_(px, py))
    w2 = OPS[op2][1](w1, cin(px, py))
    m.require(f'depth 2: ({op1}) {op2} c', Implies(off, Iff(comp.contains(PixCoord(px, py)), w2)))
    # depth 3: c op1 comp, whose meta comes from c (excluded) -> negated as a whole
    w3 = Not(OPS[op1][1](cin(px, py), w2))
    m.require(f'depth 3: c {op1} (({op1}) {op2} c), compound inherits the excluded flag of its first operand',
              Implies(off, Iff(deeper.contains(PixCoord(px, py)), w3)))


def h_annulus_area(kind, m):
    from regions import CircleAnnulusPixelRegion, EllipseAnnulusPixelRegion, RectangleAnnulusPixelRegion, PixCoord
    cx, cy = m.real('cx'), m.real('cy')
    if kind == 'circle':
        r1, r2 = m.pos('r1'), m.pos('r2')
        m.assume(r1 < r2)
        reg = CircleAnnulusPixelRegion(PixCoord(cx, cy), r1, r2)
        PI = symx.SymReal(symx.PI) if m.sym else math.pi
        m.require('area = pi (outer^2 - inner^2)', reg.area == PI * r2 * r2 - PI * r1 * r1)
    else:
        w1, w2, h1, h2 = m.pos('w1'), m.pos('w2'), m.pos('h1'), m.pos('h2')
        m.assume(w1 < w2)
        m.assume(h1 < h2)
        ang = m.angle('theta', 'deg')
        cls = EllipseAnnulusPixelRegion if kind == 'ellipse' else RectangleAnnulusPixelRegion
        reg = cls(PixCoord(cx, cy), w1, w2, h1, h2, angle=ang)
        if kind == 'ellipse':
            PI = symx.SymReal(symx.PI) if m.sym else math.pi
            m.require('area = pi/4 (W H - w h)', reg.area == PI / 4 * w2 * h2 - PI / 4 * w1 * h1)
        else:
            m.require('area = W H - w h', reg.area == w2 * h2 - w1 * h1)
    m.require('area equals outer area minus inner area', reg.area == reg._outer_region.area - reg._inner_region.area)
    m.require('area is positive', reg.area > 0)


def h_annulus_history(kind, m):
    """an annulus answers for its CURRENT sizes: ask, re-assign every size (and the centre), ask again"""
    from regions import CircleAnnulusPixelRegion, EllipseAnnulusPixelRegion, PixCoord
    from vf import oracle as O
    m.shim('regions.core.bounding_box', '_is_int', symx.sym_is_int)
    m.shim('regions.core.bounding_box', 'int', symx.sint)
    px, py = m.real('px'), m.real('py')
    q = PixCoord(px, py)
    cx, cy = m.real('cx'), m.real('cy')
    if kind == 'circle':
        reg = CircleAnnulusPixelRegion(PixCoord(0.5, 0.25), 1.0, 2.0)
        reg.contains(q)
        reg.to_mask() if not m.sym else None
        r1, r2 = m.pos('r1'), m.pos('r2')
        m.assume(And(r1 < r2, r2 < 1000))
        reg.center = PixCoord(cx, cy)
        reg.outer_radius = 1000.0
        reg.inner_radius, reg.outer_radius = r1, r2
        inside = And(O.disk_in(px, py, cx, cy, r2), O.disk_out(px, py, cx, cy, r1))
        outside = Or(O.disk_out(px, py, cx, cy, r2), O.disk_in(px, py, cx, cy, r1))
    else:
        reg = EllipseAnnulusPixelRegion(PixCoord(0.5, 0.25), 1.0, 2.0, 0.5, 1.5)
        reg.contains(q)
        w1, w2, h1, h2 = m.pos('w1'), m.pos('w2'), m.pos('h1'), m.pos('h2')
        m.assume(And(w1 < w2, h1 < h2, w2 < 1000, h2 < 1000))
        reg.center = PixCoord(cx, cy)
        reg.outer_width, reg.outer_height = 1000.0, 1000.0
        reg.inner_width, reg.inner_height, reg.outer_width, reg.outer_height = w1, h1, w2, h2
        inside = And(O.ellipse_in(px, py, cx, cy, w2, h2, 1.0, 0.0), O.ellipse_out(px, py, cx, cy, w1, h1, 1.0, 0.0))
        outside = Or(O.ellipse_out(px, py, cx, cy, w2, h2, 1.0, 0.0), O.ellipse_in(px, py, cx, cy, w1, h1, 1.0, 0.0))
    ans = reg.contains(q)
    m.require('after re-assignment: strictly between the new outlines => member', Implies(inside, ans))
    m.require('after re-assignment: strictly outside the new ring => not a member', Implies(outside, Not(ans)))
    bb = reg.bounding_box
    ob = reg._outer_region.bounding_box
    m.require('after re-assignment: the box is that of the new outer outline', And(bb.ixmin == ob.ixmin, bb.ixmax == ob.ixmax, bb.iymin == ob.iymin, bb.iymax == ob.iymax))


def h_mask_operand_flags_executed(m):
    """EXECUTED (no symbolic input; the symbolic compound-mask cases are in the thorough tier): the mask of a compound is the
    operator applied to the operand masks placed at the same absolute pixels -- include flags of operands or of the compound
    do not enter a mask"""
    import operator
    from regions import CirclePixelRegion, RectanglePixelRegion, CompoundPixelRegion, PixCoord, RegionMeta
    for inc_a, inc_b, inc_c in ((None, None, None), (False, None, None), (None, 0, None), (False, False, None), (None, None, False), (False, None, True)):
        a = CirclePixelRegion(PixCoord(3.2, 4.1), 2.3, meta=_meta(inc_a))
        b = RectanglePixelRegion(PixCoord(4.6, 3.4), 3.0, 2.0, angle=20 * u.deg, meta=_meta(inc_b))
        plain_a = CirclePixelRegion(PixCoord(3.2, 4.1), 2.3)
        plain_b = RectanglePixelRegion(PixCoord(4.6, 3.4), 3.0, 2.0, angle=20 * u.deg)
        for name, fn in (('and', operator.and_), ('or', operator.or_), ('xor', operator.xor)):
            comp = CompoundPixelRegion(a, b, fn, meta=_meta(inc_c)) if inc_c is not None else CompoundPixelRegion(a, b, fn)
            mk = comp.to_mask()
            bb = mk.bbox
            ma, mb = plain_a.to_mask(), plain_b.to_mask()
            img_a, img_b = np.zeros((20, 20)), np.zeros((20, 20))
            img_a[ma.bbox.iymin:ma.bbox.iymax, ma.bbox.ixmin:ma.bbox.ixmax] = ma.data
            img_b[mb.bbox.iymin:mb.bbox.iymax, mb.bbox.ixmin:mb.bbox.ixmax] = mb.data
            want = fn(img_a.astype(bool), img_b.astype(bool))[bb.iymin:bb.iymax, bb.ixmin:bb.ixmax]
            m.require(f'{name}, include flags ({inc_a}, {inc_b}, {inc_c}): mask = operator(mask_a, mask_b) at the same absolute pixels',
                      mk.data.shape == want.shape and bool(np.all(mk.data.astype(bool) == want)))


def h_compound_misc(m):
    from regions import CirclePixelRegion, PixCoord, CompoundPixelRegion, RegionMeta
    a = CirclePixelRegion(PixCoord(1.0, 2.0), 3.0, meta=RegionMeta({'label': 'A'}))
    b = CirclePixelRegion(PixCoord(2.0, 2.0), 1.0)
    for bad in (None, 5, 'and'):
        try:
            CompoundPixelRegion(a, b, bad)
            m.require('a non-callable operator is rejected', False)
        except TypeError:
            m.require('a non-callable operator is rejected', True)
    for bad in (5, 'x', None):
        try:
            CompoundPixelRegion(a, bad, operator.and_)
            m.require('a non-region operand is rejected', False)
        except ValueError:
            m.require('a non-region operand is rejected', True)
    c = CompoundPixelRegion(a, b, operator.or_, meta=RegionMeta({'label': 'own'}))
    m.require('an explicit meta is kept', c.meta['label'] == 'own')
    try:
        c.area
        m.require('compound area is not implemented', False)
    except NotImplementedError:
        m.require('compound area is not implemented', True)


def h_mask(op, inc_c, m):
    """centre mask of a compound = op applied to the operands' masks on the union box"""
    from regions import CirclePixelRegion, RectanglePixelRegion, PixCoord
    C02.shims(m)
    C02._compound_shims(m)
    cx, cy, r = m.real('cx'), m.real('cy'), m.pos('r', hi=0.5)
    dx, dy = cx + m.real('dx', lo=-1, hi=1), cy + m.real('dy', lo=-1, hi=1)
    w, h = m.pos('w', hi=0.8), m.pos('h', hi=0.8)
    a = CirclePixelRegion(PixCoord(cx, cy), r)
    b = RectanglePixelRegion(PixCoord(dx, dy), w, h)
    comp = {'or': a | b, 'and': a & b, 'xor': a ^ b}[op]
    if inc_c is not None:
        comp.meta = _meta(inc_c)
    f = OPS[op][1]
    mask = comp.to_mask(mode='center')
    C02.box_checks(m, 'center', comp, mask)
    ma, mb = a.to_mask(mode='center'), b.to_mask(mode='center')
    bb = mask.bbox
    data = C02.cells_of(mask)
    da, db = C02.cells_of(ma), C02.cells_of(mb)
    ny, nx = data.shape

    def at(d, box, X, Y):
        """value of an operand mask at absolute pixel (X, Y) (0 outside its box); box corners are
        concrete relative to the union box on this path"""
        j = Y - box.iymin
        i = X - box.ixmin
        jj, ii = C02_conc(j), C02_conc(i)
        if 0 <= jj < d.shape[0] and 0 <= ii < d.shape[1]:
            return d[jj, ii]
        return 0
    for j in range(ny):
        for i in range(nx):
            X, Y = bb.ixmin + i, bb.iymin + j
            va, vb = at(da, ma.bbox, X, Y), at(db, mb.bbox, X, Y)
            m.require(f'mask[{j},{i}] = {op}(mask_a, mask_b) at the same absolute pixel (the include flag does not enter)',
                      Iff(data[j, i] == 1, f(va == 1, vb == 1)))
            m.require(f'mask[{j},{i}] is 0 or 1', Or(data[j, i] == 0, data[j, i] == 1))


def C02_conc(v):
    if isinstance(v, symx.SymReal):
        t = z3.simplify(v.t)
        if z3.is_rational_value(t):
            return t.numerator_as_long()
        return symx.concretize(v)
    return int(v)


def harnesses(tier):
    P = functools.partial
    q = tier == 'quick'
    hs = []
    for op in OPS:
        pairs = [('circle', 'rectangle'), ('ellipse', 'circle')] if q else [('circle', 'rectangle'), ('ellipse', 'circle'),
                                                                              ('rectangle', 'rectangle'), ('circle', 'circle'),
                                                                              ('ellipse', 'rectangle')]
        for ka, kb in pairs:
            combos = [(None, None, None), (False, None, None), (None, 0, None), (None, None, False), (False, None, True),
                      (0, False, 0), (False, None, 'explicit-empty')] if (q and (ka, kb) == ('circle', 'rectangle')) else \
                ([(None, None, None), (None, None, False)] if q else
                 [(ia, ib, ic) for _, ia in INCS[:3] for _, ib in INCS[:3:2] for _, ic in (INCS[0], INCS[2], INCS[3])])
            for ia, ib, ic in combos:
                hs.append((f'membership/{op}/{ka}-{kb}/inc={ia},{ib},{ic}', P(h_membership, op, ka, kb, ia, ib, ic)))
    hs.append(('compound-mask/operand-include-flags (executed)', h_mask_operand_flags_executed))
    for op1, op2 in ([('and', 'or'), ('xor', 'and'), ('or', 'xor')] if q else
                     [(a, b) for a in OPS for b in OPS]):
        hs.append((f'nested/{op1}-{op2}', P(h_nested, op1, op2)))
    for k in ('circle', 'ellipse', 'rectangle'):
        hs.append((f'annulus-area/{k}', P(h_annulus_area, k)))
    hs.append(('compound-misc', h_compound_misc))
    from checks import C01, C15
    for iname, inc in C01.INCLUDES:
        hs.append((f'annulus-membership/circle/include={iname}', P(C01.h_annulus, 'circle', inc, 'scalar', 'deg')))
        if iname == 'absent':
            hs.append(('annulus-history/circle', P(h_annulus_history, 'circle')))
            hs.append(('annulus-history/ellipse', P(h_annulus_history, 'ellipse')))
        if not q or iname in ('absent', 'False'):
            hs.append((f'annulus-membership/ellipse/include={iname}', P(C01.h_annulus, 'ellipse', inc, 'scalar', 'deg')))
            hs.append((f'annulus-membership/rectangle/include={iname}', P(C01.h_annulus, 'rectangle', inc, 'scalar', 'deg')))
    hs.append(('rotation-commutes/compound', C15.h_rotate_compound))
    hs.append(('annulus-mask/circle/r<0.5', P(C02.h_annulus, 'circle', 'deg', 0.5)))
    if not q:
        for op in OPS:
            for ic in (None, False):
                hs.append((f'mask/{op}/inc={ic}', P(h_mask, op, ic)))
    return hs


SHARDS = {}


def cases(tier, seed):
    out = []
    for name, h in harnesses(tier):
        k = 8 if name.startswith('mask/') else (2 if name.startswith('annulus-mask/') else 1)
        out += chk.sharded('C08', name, h, k, max_paths=4000)
    return out


META = {
    'functions_encoded': ['PixelRegion.__and__/__or__/__xor__ -> intersection/union/symmetric_difference',
                          'regions.core.compound.CompoundPixelRegion.__init__/contains/to_mask/bounding_box',
                          'contains of circle/ellipse/rectangle operands', 'AnnulusPixelRegion.area and the three annulus classes'],
    'bounds': {'quick': {'operand classes': 'circle-rectangle (6 include combinations), ellipse-circle (2)', 'nesting': 'depth 2 and 3, 3 operator pairs',
                         'continuous parameters': 'unbounded reals', 'masks': 'thorough tier only'},
               'thorough': {'operand classes': '5 pairs x 18 include combinations', 'nesting': 'all 9 operator pairs',
                            'masks': 'circle (r <= 0.5) op rectangle (sides <= 0.8), offset within 1 pixel, all three operators, compound include in {absent, False}'}},
    'outside_claim': ['commutation with rotation is part of C15 (rotate/compound), with sky conversion part of C06',
                      'compound masks of larger operands; mask modes other than centre raise NotImplementedError (checked in C02)',
                      'positions on an operand boundary (reals model)'],
    'stubs': ['kernels from .pyx; regions.core.compound.np facade (mask cells as symbolic bits)'],
    'assumptions': ['floats are interpreted as reals'],
}
