"""C03 exact masks give the true pixel-region overlap area.

Compositional, with the transcendental leaf left uninterpreted:
  L0  to_mask(mode='exact') hands the recentred pixel-edge grid, radius / semi-axes, angle and use_exact=1 to the kernel
  L1  the grid kernels: every pixel is either skipped (then it does not meet the shape), set to 1 (then it lies inside the shape),
      or set to single_exact(pixel extents) / pixel area
  L2  circular_overlap_single_exact: the quadrant decomposition tiles the rectangle (the first-quadrant overlap is an uninterpreted,
      transposition-symmetric function)
  L3  circular_overlap_core: = area of the polygon (inside corners + the two crossing points) + Seg(crossing points), Seg uninterpreted
  L4  elliptical_overlap_single_exact: = (T(triangle 1) + T(triangle 2)) * rx * ry with the triangles the images of the pixel halves under the
      map that takes the ellipse to the unit circle (T uninterpreted, symmetric)
  L5  overlap_area_triangle_unit_circle: all vertices inside -> triangle area; chord cases = polygon + Seg; no-intersection cases -> pi or 0
  L6  area_arc / area_arc_unit implement the circular-segment formula 1/2 r^2 (theta - sin theta), theta = 2 asin(a / 2r) (asin, sin uninterpreted)
Replay evaluates the uninterpreted functions with the numeric references of vf/areas.py."""
import functools
import math

import numpy as np
import z3
import astropy.units as u

from vf import chk, symx, kernels, areas
from vf.chk import And, Or, Not, Implies, Iff, If
from vf.symx import SymReal
from vf.pyxsym import Interp, R, Rnum, ISum, Ite

RS = z3.RealSort()
_g_seg = z3.Function('segG', RS, RS, RS, RS, RS, RS)
_g_core = z3.Function('coreG', RS, RS, RS, RS, RS, RS)
_asin = z3.Function('ASIN', RS, RS)
_sin = z3.Function('SIN', RS, RS)


def T(v):
    """term of an interpreter / harness value"""
    if isinstance(v, SymReal):
        return v.t
    return Rnum(v)


def V(v, m):
    """harness value of an interpreter result"""
    if m.sym:
        return SymReal(z3.simplify(Rnum(v))) if not isinstance(v, SymReal) else v
    return float(v)


def A(m, xs):
    """interpreter arguments of harness values"""
    return [T(x) for x in xs] if m.sym else [float(x) for x in xs]


def csqrt(x):
    """square root whose symbol is shared by all arguments with the same polynomial normal form (so that the kernel's
    sqrt(...) and the reference's denote the same symbol whenever they take the root of the same polynomial)"""
    if isinstance(x, SymReal):
        return SymReal(z3.simplify(x.t, som=True, sort_sums=True)).sqrt()
    return math.sqrt(x)


def _h_sqrt(m):
    def h(I, args, guard):
        a = args[0]
        if m.sym:
            return csqrt(SymReal(Rnum(a))).t
        return math.sqrt(a)
    return h


def seg(m, x1, y1, x2, y2, r):
    """area of the circular segment cut by the chord: symmetric in the end points"""
    if m.sym:
        a = [T(x) for x in (x1, y1, x2, y2, r)]
        return SymReal(_g_seg(a[0], a[1], a[2], a[3], a[4]) + _g_seg(a[2], a[3], a[0], a[1], a[4]))
    return areas.segment(float(x1), float(y1), float(x2), float(y2), float(r))


def interp(m, module, hooks, prune=False):
    hooks = dict(hooks)
    hooks.setdefault('sqrt', _h_sqrt(m))
    I = Interp(module, symbolic=m.sym, hooks=hooks)
    if prune and m.sym:
        # branch pruning while the kernel is interpreted: a guard is dropped only if it is unsatisfiable together with what
        # has been assumed / proved so far, decided on the LINEAR abstraction of the formulas (non-linear subterms become
        # fresh reals: more models, so `unsat` transfers); anything else keeps the branch
        from vf import solve
        cache = {}

        def feasible(g):
            k = g.get_id()
            if k not in cache:
                c = symx.ctx()
                lin, _ = solve.abstract_nonlinear(list(c.pc) + [g])
                s_ = z3.Solver()
                s_.set('timeout', 2000)
                s_.add(lin)
                cache[k] = (s_.check() != z3.unsat, g)
            return cache[k][0]
        I.feasible = feasible
    return I


def finish(m, I):
    if m.sym:
        c = symx.ctx()
        c.defs.extend(I.side)
        for (g, f, what) in I.safety:
            m.require('kernel safety: ' + what, symx.SymBool(z3.Implies(g, f)))
        for (g, what) in I.raises:
            m.require('kernel raise unreachable: ' + what[:60], symx.SymBool(z3.Not(g)))
        for (g, name) in I.unwound:
            m.require(f'unwinding assertion: recursion bound of {name}', symx.SymBool(z3.Not(g)))


def shoelace(pts):
    s = 0
    n = len(pts)
    for k in range(n):
        x1, y1 = pts[k]
        x2, y2 = pts[(k + 1) % n]
        s = s + (x1 * y2 - x2 * y1)
    return s / 2


def _same(m, a, b):
    if m.sym:
        return z3.is_true(z3.simplify(T(a) == T(b), som=True))
    return abs(float(a) - float(b)) <= 1e-12 * max(1.0, abs(float(a)))


# --------------------------------------------------------------------------
# L3 circle core
# --------------------------------------------------------------------------
def h_core(case, m):
    """first-quadrant rectangle [xmin,xmax]x[ymin,ymax], 0<=xmin<xmax, 0<=ymin<ymax, against the disc of radius r"""
    xmin, ymin = m.real('xmin', lo=0), m.real('ymin', lo=0)
    w, h = m.pos('w'), m.pos('h')
    r = m.pos('r')
    xmax, ymax = xmin + w, ymin + h
    near_in = xmin * xmin + ymin * ymin < r * r
    far_in = xmax * xmax + ymax * ymax < r * r
    c1 = xmax * xmax + ymin * ymin < r * r          # bottom-right corner inside
    c2 = xmin * xmin + ymax * ymax < r * r          # top-left corner inside
    pre = {'outside': Not(Or(near_in, xmin * xmin + ymin * ymin == r * r)), 'inside': far_in,
           'c1c2': And(near_in, Not(far_in), c1, c2), 'c1': And(near_in, Not(far_in), c1, Not(c2)),
           'c2': And(near_in, Not(far_in), Not(c1), c2), 'none': And(near_in, Not(far_in), Not(c1), Not(c2))}[case]
    m.assume(pre)

    def h_arc(I, args, guard):
        return T(seg(m, *[V(a, m) for a in args])) if m.sym else seg(m, *args)
    I = interp(m, 'circular_overlap', {'area_arc': h_arc})
    v = V(I.call('circular_overlap_core', A(m, [xmin, ymin, xmax, ymax, r])), m)
    finish(m, I)
    if case == 'outside':
        m.require('rectangle beyond the circle: area 0', chk.Eq(v, 0))
        return
    if case == 'inside':
        m.require('rectangle within the circle: full area', chk.Eq(v, w * h))
        return
    S = csqrt
    P = (xmax, S(r * r - xmax * xmax)) if case in ('c1c2', 'c1') else (S(r * r - ymin * ymin), ymin)
    Q = (S(r * r - ymax * ymax), ymax) if case in ('c1c2', 'c2') else (xmin, S(r * r - xmin * xmin))
    poly = [(xmin, ymin)] + ([(xmax, ymin)] if case in ('c1c2', 'c1') else []) + [P, Q] + ([(xmin, ymax)] if case in ('c1c2', 'c2') else [])
    ref = shoelace(poly) + seg(m, P[0], P[1], Q[0], Q[1], r)
    m.require(f'core ({case}): area = polygon(inside corners, crossings) + circular segment on the crossings', chk.Eq(v, ref))


# --------------------------------------------------------------------------
# L2 quadrant decomposition
# --------------------------------------------------------------------------
def core_fn(m, a0, b0, a1, b1, r):
    """overlap of the first-quadrant rectangle with the disc: uninterpreted, symmetric under transposition"""
    if m.sym:
        a = [T(x) for x in (a0, b0, a1, b1, r)]
        return SymReal(_g_core(a[0], a[1], a[2], a[3], a[4]) + _g_core(a[1], a[0], a[3], a[2], a[4]))
    return areas.disc_rect(float(a0), float(b0), float(a1), float(b1), float(r))


def h_quadrants(xcase, ycase, m):
    xmin, ymin = m.real('xmin'), m.real('ymin')
    w, h = m.pos('w'), m.pos('h')
    r = m.pos('r')
    xmax, ymax = xmin + w, ymin + h
    for lo, hi, c in ((xmin, xmax, xcase), (ymin, ymax, ycase)):
        m.assume({'pos': lo >= 0, 'neg': hi <= 0, 'straddle': And(lo < 0, hi > 0)}[c])
    calls = []

    def h_c(I, args, guard):
        vals = [V(a, m) for a in args]
        calls.append((guard, vals))
        v = core_fn(m, *vals)
        return T(v) if m.sym else v
    I = interp(m, 'circular_overlap', {'circular_overlap_core': h_c})
    v = V(I.call('circular_overlap_single_exact', A(m, [xmin, ymin, xmax, ymax, r])), m)
    finish(m, I)
    m.require('at least one first-quadrant piece is evaluated', len(calls) >= 1)
    for k, (g, (a0, b0, a1, b1, rr)) in enumerate(calls):
        gg = symx.SymBool(g) if m.sym and not isinstance(g, bool) else g
        m.require(f'piece {k}: is a first-quadrant rectangle (precondition of the core) with the same radius',
                  Implies(gg, And(a0 >= 0, b0 >= 0, a1 >= a0, b1 >= b0, chk.Eq(rr, r))))
        if m.sym:
            m.assume(Implies(Or(a0 == a1, b0 == b1), core_fn(m, a0, b0, a1, b1, rr) == 0))     # measure-zero pieces
    ref = 0
    for sx in (1, -1):
        for sy in (1, -1):
            a0, a1 = (chk.Max(xmin, 0), chk.Max(xmax, 0)) if sx > 0 else (chk.Max(-xmax, 0), chk.Max(-xmin, 0))
            b0, b1 = (chk.Max(ymin, 0), chk.Max(ymax, 0)) if sy > 0 else (chk.Max(-ymax, 0), chk.Max(-ymin, 0))
            piece = core_fn(m, a0, b0, a1, b1, r)
            if m.sym:
                m.assume(Implies(Or(a0 == a1, b0 == b1), piece == 0))
            ref = ref + piece
    m.require('the pieces are the reflections of the four quadrant parts of the rectangle (areas neither lost nor counted twice)', chk.Eq(v, ref))


# --------------------------------------------------------------------------
# L1 grids
# --------------------------------------------------------------------------
def _pixel_hints(m, X0, Y0, X1, Y1, R_, xcase, ycase):
    """geometry of one pixel against the disc of radius R_ about the origin, as a chain of proved lemmas (each is an
    obligation before it is used).  Returns (outside, corners) where `outside` says that the closed pixel does not meet
    the open disc (its nearest point is at least R_ away)."""
    cx, cy = (X0 + X1) / 2, (Y0 + Y1) / 2
    hx, hy = (X1 - X0) / 2, (Y1 - Y0) / 2
    qs = []
    for lo, hi, c in ((X0, X1, xcase), (Y0, Y1, ycase)):
        m.assume({'pos': lo > 0, 'neg': hi < 0, 'straddle': And(lo <= 0, hi >= 0)}[c])
        qs.append({'pos': lo, 'neg': hi, 'straddle': 0 * lo}[c])
    qx, qy = qs
    S = csqrt
    d, p = S(cx * cx + cy * cy), S((X1 - X0) * (X1 - X0) + (Y1 - Y0) * (Y1 - Y0)) / 2
    n, e = S(qx * qx + qy * qy), S((cx - qx) * (cx - qx) + (cy - qy) * (cy - qy))
    m.lemma('nearest point of the pixel is within half a diagonal of the pixel centre', e <= p, use=[])
    m.lemma('Cauchy-Schwarz for (nearest point, centre - nearest point)', qx * (cx - qx) + qy * (cy - qy) <= n * e, use=[])
    m.lemma('triangle inequality: centre distance <= nearest distance + offset', d <= n + e, use=['Cauchy-Schwarz for (nearest'])
    m.lemma('nearest distance >= centre distance - half diagonal', n >= d - p, use=['triangle inequality', 'nearest point of the pixel'])
    outside = qx * qx + qy * qy >= R_ * R_
    m.lemma('far from the disc: nearest point beyond r', Implies(n >= R_, outside), use=[])
    m.lemma('centre farther than r + half diagonal => the pixel does not meet the disc', Implies(d >= R_ + p, outside),
            use=['nearest distance >=', 'far from the disc'])
    for nm, cond in (('left', X1 <= -R_), ('right', X0 >= R_), ('below', Y1 <= -R_), ('above', Y0 >= R_)):
        m.lemma(f'pixel {nm} of the bounding square of the disc => it does not meet the disc', Implies(cond, outside), use=[])
    corners = ((X0, Y0, -1, -1), (X1, Y0, 1, -1), (X0, Y1, -1, 1), (X1, Y1, 1, 1))
    for (X, Y, sx, sy) in corners:
        m.lemma(f'Cauchy-Schwarz for (centre, half diagonal {sx:+d},{sy:+d})', sx * cx * hx + sy * cy * hy <= d * p, use=[])
        m.lemma(f'corner {sx:+d},{sy:+d} is within centre distance + half diagonal', X * X + Y * Y <= (d + p) * (d + p),
                use=[f'Cauchy-Schwarz for (centre, half diagonal {sx:+d},{sy:+d})'])
        m.lemma(f'centre closer than r - half diagonal => corner {sx:+d},{sy:+d} lies in the disc', Implies(d + p < R_, X * X + Y * Y <= R_ * R_),
                use=[f'corner {sx:+d},{sy:+d} is within'])
    return outside, corners


def h_circle_grid(nx, ny, i, j, xcase, ycase, m):
    xmin, ymin = m.real('xmin'), m.real('ymin')
    dx, dy = m.pos('dx'), m.pos('dy')
    r = m.pos('r')
    xmax, ymax = xmin + dx * nx, ymin + dy * ny
    calls = []

    def h_s(I, args, guard):
        vals = [V(a, m) for a in args]
        if m.sym:
            # one evaluation = one fresh real (an uninterpreted value of its arguments)
            c = SymReal(z3.Real(symx.ctx().name('single')))
        else:
            c = areas.disc_rect(*[float(a) for a in vals])
        calls.append((vals, c))
        return c.t if m.sym else c
    I = interp(m, 'circular_overlap', {'circular_overlap_single_exact': h_s})
    frac = I.call('circular_overlap_grid', A(m, [xmin, xmax, ymin, ymax]) + [nx, ny] + A(m, [r]) + [1, 1])
    finish(m, I)
    v = V(frac[j][i], m)
    X0, Y0 = xmin + dx * i, ymin + dy * j
    X1, Y1 = X0 + dx, Y0 + dy
    outside, corners = _pixel_hints(m, X0, Y0, X1, Y1, r, xcase, ycase)
    mine = [c for (a, c) in calls if all(_same(m, p_, q_) for p_, q_ in zip(a, (X0, Y0, X1, Y1, r)))]
    m.require(f'pixel ({i},{j}): the overlap routine is evaluated on the extents of this pixel and the radius', len(mine) == 1)
    if len(mine) != 1:
        return
    exact = mine[0] / (dx * dy)
    m.require(f'pixel ({i},{j}) is 0, 1 or overlap area / pixel area', Or(chk.Eq(v, 0), chk.Eq(v, 1), chk.Eq(v, exact)), use=[])
    for (X, Y, sx, sy) in corners:
        m.require(f'pixel ({i},{j}) set to 1 without evaluating the overlap only if it lies in the disc (corner {sx:+d},{sy:+d} within r)',
                  Implies(And(chk.Eq(v, 1), Not(chk.Eq(v, exact))), X * X + Y * Y <= r * r),
                  use=[f'centre closer than r - half diagonal => corner {sx:+d},{sy:+d}'])
    m.require(f'pixel ({i},{j}) left at 0 without evaluating the overlap only if it does not meet the disc',
              Implies(And(chk.Eq(v, 0), Not(chk.Eq(v, exact))), outside),
              use=['centre farther than', 'pixel left', 'pixel right', 'pixel below', 'pixel above'])


def h_ellipse_grid(nx, ny, i, j, xcase, ycase, major, m):
    xmin, ymin = m.real('xmin'), m.real('ymin')
    dx, dy = m.pos('dx'), m.pos('dy')
    rx, ry = m.pos('rx'), m.pos('ry')
    th = m.angle('theta', 'rad')
    m.assume(rx >= ry if major == 'rx' else rx < ry)
    Rmax = rx if major == 'rx' else ry
    xmax, ymax = xmin + dx * nx, ymin + dy * ny
    calls = []

    def h_s(I, args, guard):
        vals = [V(a, m) for a in args]
        if m.sym:
            c = SymReal(z3.Real(symx.ctx().name('single')))
        else:
            x0, y0, x1, y1, a_, b_, t_ = [float(a) for a in vals]
            c = _ellipse_rect_area(x0, y0, x1, y1, a_, b_, t_)
        calls.append((vals, c))
        return c.t if m.sym else c
    hk = kernels._trig_hooks()
    hk['elliptical_overlap_single_exact'] = h_s
    I = interp(m, 'elliptical_overlap', hk)
    tv = th.to_value(u.rad)
    tv = tv[()] if isinstance(tv, np.ndarray) else tv
    frac = I.call('elliptical_overlap_grid', A(m, [xmin, xmax, ymin, ymax]) + [nx, ny] + A(m, [rx, ry, tv]) + [1, 1])
    finish(m, I)
    v = V(frac[j][i], m)
    X0, Y0 = xmin + dx * i, ymin + dy * j
    X1, Y1 = X0 + dx, Y0 + dy
    outside, corners = _pixel_hints(m, X0, Y0, X1, Y1, Rmax, xcase, ycase)
    mine = [c for (a, c) in calls if all(_same(m, p_, q_) for p_, q_ in zip(a, (X0, Y0, X1, Y1, rx, ry, tv)))]
    m.require(f'pixel ({i},{j}): the overlap routine is evaluated on the extents of this pixel, the semi-axes and the angle', len(mine) == 1)
    if len(mine) != 1:
        return
    exact = mine[0] / (dx * dy)
    m.require(f'pixel ({i},{j}) is 0 or overlap area / pixel area', Or(chk.Eq(v, 0), chk.Eq(v, exact)), use=[])
    m.require(f'pixel ({i},{j}) left at 0 without evaluating the overlap only if it does not meet the disc of the larger semi-axis (which contains the ellipse)',
              Implies(And(chk.Eq(v, 0), Not(chk.Eq(v, exact))), outside),
              use=['pixel left', 'pixel right', 'pixel below', 'pixel above'])


def _ellipse_rect_area(x0, y0, x1, y1, a, b, t):
    """numeric reference (replay only): map the ellipse to the unit circle; the rectangle becomes a parallelogram = two triangles"""
    c, s = math.cos(t), math.sin(t)

    def img(x, y):
        return ((x * c + y * s) / a, (-x * s + y * c) / b)
    P = [img(x0, y0), img(x1, y0), img(x1, y1), img(x0, y1)]
    return (areas.disc_triangle(*P[0], *P[1], *P[2]) + areas.disc_triangle(*P[0], *P[3], *P[2])) * a * b


def h_ellipse_in_disc(m):
    """a point of the ellipse lies within the larger semi-axis of the centre (justifies the skip test of the grid)"""
    x, y = m.real('x'), m.real('y')
    rx, ry = m.pos('rx'), m.pos('ry')
    th = m.angle('theta', 'rad')
    c, s = symx.angle_cs(th)
    xt, yt = x * c + y * s, -x * s + y * c
    inside = xt * xt * ry * ry + yt * yt * rx * rx <= rx * rx * ry * ry
    Rm = chk.Max(rx, ry)
    m.lemma('rotation keeps the distance to the centre', chk.Eq(xt * xt + yt * yt, x * x + y * y))
    m.require('ellipse within the disc of its larger semi-axis', Implies(inside, x * x + y * y <= Rm * Rm))


# --------------------------------------------------------------------------
# L4 ellipse: one pixel
# --------------------------------------------------------------------------
def h_ellipse_single(m):
    import itertools
    xmin, ymin = m.real('xmin'), m.real('ymin')
    w, h = m.pos('w'), m.pos('h')
    rx, ry = m.pos('rx'), m.pos('ry')
    th = m.angle('theta', 'rad')
    c, s = symx.angle_cs(th)
    xmax, ymax = xmin + w, ymin + h
    calls = []

    def h_t(I, args, guard):
        vals = [V(a, m) for a in args]
        cst = SymReal(z3.Real(symx.ctx().name('tri'))) if m.sym else areas.disc_triangle(*[float(a) for a in vals])
        calls.append((vals, cst))
        return cst.t if m.sym else cst
    hk = kernels._trig_hooks()
    hk['overlap_area_triangle_unit_circle'] = h_t
    I = interp(m, 'elliptical_overlap', hk)
    tv = th.to_value(u.rad)
    tv = tv[()] if isinstance(tv, np.ndarray) else tv
    v = V(I.call('elliptical_overlap_single_exact', A(m, [xmin, ymin, xmax, ymax, rx, ry, tv])), m)
    finish(m, I)

    def img(x, y):
        # the linear map that takes the ellipse (semi-axes rx, ry, rotated by theta) to the unit circle
        return ((x * c + y * s) / rx, (-x * s + y * c) / ry)
    Aa, Bb, Cc, Dd = img(xmin, ymin), img(xmax, ymin), img(xmax, ymax), img(xmin, ymax)
    m.require('the pixel is split in two triangles', len(calls) == 2)
    if len(calls) != 2:
        return
    tris = [[(vals[0], vals[1]), (vals[2], vals[3]), (vals[4], vals[5])] for vals, _ in calls]

    def same_tri(t, ref):
        return Or(*[And(*[And(chk.Eq(t[k][0], ref[pi[k]][0]), chk.Eq(t[k][1], ref[pi[k]][1])) for k in range(3)])
                    for pi in itertools.permutations(range(3))])

    def tiling(r1, r2):
        return Or(And(same_tri(tris[0], r1), same_tri(tris[1], r2)), And(same_tri(tris[0], r2), same_tri(tris[1], r1)))
    m.require('the two triangles are the images of the two halves of the pixel (either diagonal) under the map ellipse -> unit circle',
              Or(tiling((Aa, Bb, Cc), (Aa, Dd, Cc)), tiling((Aa, Bb, Dd), (Bb, Cc, Dd))))
    # areas shrink by |det| = 1 / (rx ry) under the map
    m.require('overlap = (sum of the two triangle / unit-circle overlaps) * rx * ry', chk.Eq(v, (calls[0][1] + calls[1][1]) * rx * ry))


# --------------------------------------------------------------------------
# L5 triangle / unit circle
# --------------------------------------------------------------------------
EPS = 1e-9      # vertices are kept this far (in squared distance) from the circle: the "on the circle" tolerance branches (1e-10) are outside the claim


def _inside(x, y):
    return x * x + y * y < 1 - EPS


def _beyond(x, y):
    return x * x + y * y > 1 + EPS


def _pt(I, m, x, y):
    from vf.pyxsym import Struct
    s_ = Struct('point', I.structs['point'], I.structs)
    s_._f['x'] = T(x) if m.sym else float(x)
    s_._f['y'] = T(y) if m.sym else float(y)
    return s_


def _line_hints(m, ax, ay, ox, oy, slope, direction, asign='+'):
    """lemma chain for the line through A (strictly inside) and O (strictly outside), parametrised the way circle_line does it
    (by x when |dx| > |dy|, by y otherwise); u is the running coordinate, w the other one.  Slope, intercept and the two roots
    are named abbreviations, so that each step is a small polynomial fact over those names."""
    if slope == 'x':
        uA, wA, uO, wO = ax, ay, ox, oy
    else:
        uA, wA, uO, wO = ay, ax, oy, ox
    du, dw = uO - uA, wO - wA
    m.assume(chk.Abs(ox - ax) > chk.Abs(oy - ay) if slope == 'x' else chk.Abs(ox - ax) <= chk.Abs(oy - ay))
    m.assume(du > 1e-9 if direction == '+' else du < -1e-9)         # the routine treats points closer than 1e-10 as coincident
    a_x = dw / du
    b_x = wA - a_x * uA
    a, b = m.define('a', a_x), m.define('b', b_x)
    m.assume(a >= 0 if asign == '+' else a < 0)
    m.lemma('slope times run = rise', chk.Eq(a * du, dw), use=['def a'])
    m.lemma('A and O are on the line w = a u + b', And(chk.Eq(wA, a * uA + b), chk.Eq(wO, a * uO + b)), use=['def b', 'slope times run'])
    m.lemma('slope is at most 1 in the running coordinate', And(a <= 1, a >= -1) if slope == 'y' else And(a < 1, a > -1), use=['slope times run'])
    m.lemma('Cauchy-Schwarz: b^2 <= (1 + a^2) |A|^2', b * b <= (1 + a * a) * (uA * uA + wA * wA), use=['A and O are on the line'])
    delta_x = 1 + a_x * a_x - b_x * b_x
    sd = csqrt(delta_x)                       # the very symbol the routine's sqrt(delta) gets
    m.lemma('discriminant in terms of a, b', chk.Eq(delta_x, 1 + a * a - b * b), use=['def a', 'def b'])
    m.lemma('the line meets the circle: discriminant > 0', 1 + a * a - b * b > 0, use=['Cauchy-Schwarz: b^2'])
    m.lemma('sd is the root of the discriminant', And(sd >= 0, chk.Eq(sd * sd, 1 + a * a - b * b)), use=['discriminant in terms', 'the line meets'])
    den = 1 + a * a
    u1 = m.define('u1', (-a * b - sd) / den)
    u2 = m.define('u2', (-a * b + sd) / den)
    m.lemma('root 1 cleared of its denominator', chk.Eq(den * u1, -a * b - sd), use=['def u1'])
    m.lemma('root 2 cleared of its denominator', chk.Eq(den * u2, -a * b + sd), use=['def u2'])
    m.lemma('the two roots are ordered', u1 <= u2, use=['root 1 cleared', 'root 2 cleared', 'sd is the root'])
    q = lambda u_: den * u_ * u_ + 2 * a * b * u_ + b * b - 1          # = |(u, a u + b)|^2 - 1
    m.lemma('roots: on the circle', And(chk.Eq(q(u1), 0), chk.Eq(q(u2), 0)), use=['root 1 cleared', 'root 2 cleared', 'sd is the root'])
    m.lemma('sum and product of the roots', And(chk.Eq(den * (u1 + u2), -2 * a * b), chk.Eq(den * den * u1 * u2, den * (b * b - 1))),
            use=['root 1 cleared', 'root 2 cleared', 'sd is the root'])
    m.lemma('product of the roots', chk.Eq(den * u1 * u2, b * b - 1), use=['sum and product'])
    m.lemma('factorisation at A', chk.Eq(den * (uA - u1) * (uA - u2), q(uA)), use=['sum and product', 'product of the roots'])
    m.lemma('factorisation at O', chk.Eq(den * (uO - u1) * (uO - u2), q(uO)), use=['sum and product', 'product of the roots'])
    m.lemma('A inside: q(A) < 0', q(uA) < 0, use=['A and O are on the line'])
    m.lemma('O outside: q(O) > 0', q(uO) > 0, use=['A and O are on the line'])
    m.lemma('A: the two offsets from the roots have opposite signs', (uA - u1) * (uA - u2) < 0, use=['factorisation at A', 'A inside: q(A)'])
    m.lemma('O: the two offsets from the roots have the same sign', (uO - u1) * (uO - u2) > 0, use=['factorisation at O', 'O outside: q(O)'])
    m.lemma('A is strictly between the roots', And(u1 < uA, uA < u2), use=['A: the two offsets', 'the two roots are ordered'])
    m.lemma('O is not between the roots', Or(uO < u1, uO > u2), use=['O: the two offsets', 'the two roots are ordered'])
    if direction == '+':
        m.lemma('the crossing towards O is the larger root', And(uA < u2, u2 < uO), use=['A is strictly between', 'O is not between'])
        uc = u2
    else:
        m.lemma('the crossing towards O is the smaller root', And(uO < u1, u1 < uA), use=['A is strictly between', 'O is not between'])
        uc = u1
    xy = (lambda u_: (u_, a * u_ + b)) if slope == 'x' else (lambda u_: (a * u_ + b, u_))
    return {'crossing': xy(uc), 'roots': (xy(u1), xy(u2)), 'a': a, 'b': b, 'u1': u1, 'u2': u2, 'uO': uO, 'uA': uA, 'wO': wO}


def h_crossing(slope, direction, asign, m):
    """circle_segment_single2(A, O) with A strictly inside and O strictly outside the unit circle returns the point of the
    segment AO that lies on the circle"""
    import ast as _ast
    ax, ay, ox, oy = m.real('ax'), m.real('ay'), m.real('ox'), m.real('oy')
    m.assume(And(_inside(ax, ay), _beyond(ox, oy)))
    ref = _line_hints(m, ax, ay, ox, oy, slope, direction, asign)
    cx_, cy_ = ref['crossing']

    def h_line(I, args, guard):
        """run the real circle_line, then state (and prove) what the selection logic that follows needs, in the routine's own terms"""
        inter = I.run(I.funcs['circle_line'], args, guard)
        if not m.sym:
            return inter
        p1, p2 = inter._f['p1'], inter._f['p2']
        k = {n_: SymReal(Rnum(v_)) for n_, v_ in (('p1x', p1._f['x']), ('p1y', p1._f['y']), ('p2x', p2._f['x']), ('p2y', p2._f['y']))}
        (r1, r2) = ref['roots']                       # (x, y) of the smaller-u and the larger-u root
        m.lemma('circle_line returns the two roots, smaller running coordinate first',
                And(chk.Eq(k['p1x'], r1[0]), chk.Eq(k['p1y'], r1[1]), chk.Eq(k['p2x'], r2[0]), chk.Eq(k['p2y'], r2[1])), use=['def a', 'def b', 'def u1', 'def u2'])
        fab = lambda t: SymReal(I.builtin('fabs', [t.t], guard))
        dx1, dy1, dx2, dy2 = fab(k['p1x'] - ox), fab(k['p1y'] - oy), fab(k['p2x'] - ox), fab(k['p2y'] - oy)
        aa, uO, wO = ref['a'], ref['uO'], ref['wO']
        absa = aa if asign == '+' else -aa
        towards = ['the crossing towards O', 'the two roots are ordered', 'A is strictly between']
        rows = (('1', ref['u1'], (k['p1y'] if slope == 'x' else k['p1x']), ((dx1, dy1) if slope == 'x' else (dy1, dx1))),
                ('2', ref['u2'], (k['p2y'] if slope == 'x' else k['p2x']), ((dx2, dy2) if slope == 'x' else (dy2, dx2))))
        for nm, uu, pw, (du_, dw_) in rows:
            # O lies beyond both roots on the side fixed by `direction`: the running offsets have a known sign
            off = (uO - uu) if direction == '+' else (uu - uO)
            m.lemma(f'root {nm}: running offset from O', And(off > 0, chk.Eq(du_, off)), use=['circle_line returns'] + towards)
            m.lemma(f'root {nm}: other offset = slope * running offset', chk.Eq(pw - wO, aa * (uu - uO)), use=['circle_line returns', 'A and O are on the line'])
            m.lemma(f'root {nm}: |slope| * running offset >= 0', absa * off >= 0, use=[f'root {nm}: running offset'])
            m.lemma(f'root {nm}: other offset in absolute value', chk.Eq(dw_, absa * off),
                    use=[f'root {nm}: other offset = slope', f'root {nm}: |slope| * running', f'root {nm}: running offset'])
        if slope == 'x':
            m.lemma('|slope| * offset < offset', absa * ((uO - ref['u1']) if direction == '+' else (ref['u1'] - uO)) < ((uO - ref['u1']) if direction == '+' else (ref['u1'] - uO)),
                    use=['root 1: running offset', 'slope is at most 1'])
            m.lemma('selection compares the running coordinate (x)', dx1 > dy1,
                    use=['root 1: running offset', 'root 1: other offset in absolute', '|slope| * offset < offset'])
            m.lemma('selection picks the root towards O', (dx1 > dx2) if direction == '+' else Not(dx1 > dx2),
                    use=['root 1: running offset', 'root 2: running offset'] + towards)
        else:
            m.lemma('|slope| * offset <= offset', absa * ((uO - ref['u1']) if direction == '+' else (ref['u1'] - uO)) <= ((uO - ref['u1']) if direction == '+' else (ref['u1'] - uO)),
                    use=['root 1: running offset', 'slope is at most 1'])
            m.lemma('selection compares the running coordinate (y)', Not(dx1 > dy1),
                    use=['root 1: running offset', 'root 1: other offset in absolute', '|slope| * offset <= offset'])
            m.lemma('selection picks the root towards O', (dy1 > dy2) if direction == '+' else Not(dy1 > dy2),
                    use=['root 1: running offset', 'root 2: running offset'] + towards)
        return inter
    I = interp(m, 'core', {'circle_line': h_line}, prune=True)
    pt = I.call('circle_segment_single2', A(m, [ax, ay, ox, oy]))
    finish(m, I)
    px, py = V(pt._f['x'], m), V(pt._f['y'], m)
    dxx, dyy = ox - ax, oy - ay
    if m.sym:
        m.lemma('the routine returns the root towards O', And(chk.Eq(px, cx_), chk.Eq(py, cy_)),
                use=['circle_line returns', 'selection compares', 'selection picks'])
    m.require('the returned point is on the unit circle', chk.Eq(px * px + py * py, 1), use=['the routine returns', 'roots: on the circle'])
    m.require('the returned point is on the line through the two points', chk.Eq((px - ax) * dyy - (py - ay) * dxx, 0),
              use=['the routine returns', 'A and O are on the line'])
    dot = (px - ax) * dxx + (py - ay) * dyy
    m.require('the returned point lies between the two points', And(dot >= 0, dot <= dxx * dxx + dyy * dyy),
              use=['the routine returns', 'the crossing towards O', 'A and O are on the line'])


def seg1(m, p, q):
    return seg(m, p[0], p[1], q[0], q[1], 1)


def _on_segment_spec(P, A_, O_):
    """P is on the unit circle and strictly between A_ and O_ on their line"""
    (px, py), (ax, ay), (ox, oy) = P, A_, O_
    dxx, dyy = ox - ax, oy - ay
    dot = (px - ax) * dxx + (py - ay) * dyy
    return And(chk.Eq(px * px + py * py, 1), chk.Eq((px - ax) * dyy - (py - ay) * dxx, 0), dot > 0, dot < dxx * dxx + dyy * dyy)


def _misses(P, Q):
    """both end points strictly outside: the segment PQ stays outside the open unit disc iff the line does, or the foot of the
    perpendicular from the centre falls outside the segment"""
    (px, py), (qx, qy) = P, Q
    dxx, dyy = qx - px, qy - py
    cross = px * dyy - py * dxx
    return Or(cross * cross >= dxx * dxx + dyy * dyy, px * dxx + py * dyy >= 0, qx * dxx + qy * dyy <= 0)


def h_triangle(case, order, sub, m):
    """overlap_area_triangle_unit_circle on a triangle in general position (no vertex within 1e-9 of the circle), by configuration.
    The two intersection routines are replaced by their specifications (circle_segment_single2: proved in triangle/crossing-point/*;
    circle_segment: see META assumptions), the segment area is uninterpreted, nested calls are treated inductively."""
    import itertools
    X = [m.real(n_) for n_ in ('x1', 'y1', 'x2', 'y2', 'x3', 'y3')]
    Pn = [(X[0], X[1]), (X[2], X[3]), (X[4], X[5])]
    d = [p_[0] * p_[0] + p_[1] * p_[1] for p_ in Pn]
    ins = [_inside(*p_) for p_ in Pn]
    out = [_beyond(*p_) for p_ in Pn]
    # strict order of the distances: the routine sorts the vertices first; `order` is the permutation (nearest first)
    m.assume(And(d[order[0]] < d[order[1]], d[order[1]] < d[order[2]]))
    V1, V2, V3 = Pn[order[0]], Pn[order[1]], Pn[order[2]]
    kind = case
    if kind == 'all-inside':
        m.assume(And(*ins))
    elif kind == 'two-inside':
        m.assume(And(ins[order[0]], ins[order[1]], out[order[2]]))
    elif kind in ('one-inside/miss', 'one-inside/chord'):
        m.assume(And(ins[order[0]], out[order[1]], out[order[2]]))
        m.assume(_misses(V2, V3) if kind.endswith('miss') else Not(_misses(V2, V3)))
    elif kind == 'none-inside/miss':
        m.assume(And(*out))
        m.assume(And(_misses(V1, V2), _misses(V2, V3), _misses(V3, V1)))
        for k_, sg in enumerate(sub):
            m.assume(Pn[k_][1] > 0 if sg == '+' else Pn[k_][1] < 0)         # which sides straddle the horizontal ray from the centre
    elif kind.startswith('none-inside/chord-'):
        m.assume(And(*out))
        sides = {'12': (V1, V2), '23': (V2, V3), '31': (V3, V1)}
        for nm_ in ('12', '23', '31'):                       # the routine looks at the sides in this order
            if nm_ == kind[-2:]:
                m.assume(Not(_misses(*sides[nm_])))
                break
            m.assume(_misses(*sides[nm_]))
    if not m.sym:
        I = interp(m, 'core', {})
        v = float(I.call('overlap_area_triangle_unit_circle', [float(x) for x in X]))
        m.require(f'triangle ({kind}): overlap with the unit disc', abs(v - areas.disc_triangle(*[float(x) for x in X])) <= 1e-9)
        return
    singles, chords, nested = [], [], []

    def fresh_pt(I, tag):
        c = symx.ctx()
        return (SymReal(z3.Real(c.name(tag + 'x'))), SymReal(z3.Real(c.name(tag + 'y'))))

    def fresh(tag):
        return SymReal(z3.Real(symx.ctx().name(tag)))

    def h_single(I, args, guard):
        # specification (proved for the real routine in triangle/crossing-point/*): for A strictly inside and O strictly outside the
        # result is A + s (O - A) with 0 < s < 1 on the unit circle
        a_ = [V(t, m) for t in args]
        A_, O_ = (a_[0], a_[1]), (a_[2], a_[3])
        s_ = fresh('s_cross')
        P = (A_[0] + s_ * (O_[0] - A_[0]), A_[1] + s_ * (O_[1] - A_[1]))
        symx.ctx().assume(T_bool(Implies(And(_inside(*A_), _beyond(*O_)), And(s_ > 0, s_ < 1, chk.Eq(P[0] * P[0] + P[1] * P[1], 1)))))
        singles.append((guard, A_, O_, P, s_))
        return _pt(I, m, *P)

    def h_chord(I, args, guard):
        # specification of circle_segment (assumed, see META): for P, Q strictly outside, either the segment misses the open disc and
        # both results have x > 1, or it crosses the circle at P + t1 (Q - P), P + t2 (Q - P), 0 < t1 < t2 < 1, returned in either
        # order.  The harness case fixes which (kind) and the order (sub = 'swap' / ''); that the call matches the case is an obligation.
        from vf.pyxsym import Struct
        a_ = [V(t, m) for t in args]
        P_, Q_ = (a_[0], a_[1]), (a_[2], a_[3])
        gg = symx.SymBool(guard) if not isinstance(guard, bool) else guard
        m.require('circle_segment is called on two vertices outside the disc', Implies(gg, And(_beyond(*P_), _beyond(*Q_))))
        st = Struct('intersections', I.structs['intersections'], I.structs)
        two = 0 * P_[0] + 2
        side_name = None
        if kind.startswith('none-inside/chord-'):
            for nm_, (a1, b1) in (('12', (V1, V2)), ('23', (V2, V3)), ('31', (V3, V1))):
                if all(_same(m, p_, q_) for p_, q_ in zip(P_ + Q_, a1 + b1)):
                    side_name = nm_
            m.require('circle_segment is called on a side of the triangle', side_name is not None)
        hit_here = (kind == 'one-inside/chord') or (side_name is not None and side_name == kind[-2:])
        later = side_name is not None and ('12', '23', '31').index(side_name) > ('12', '23', '31').index(kind[-2:])
        if hit_here:
            if kind == 'one-inside/chord':
                m.require('circle_segment is called on the far side', all(_same(m, p_, q_) for p_, q_ in zip(P_ + Q_, V2 + V3)))
            t1, t2 = fresh('t_chord'), fresh('t_chord')
            R1 = (P_[0] + t1 * (Q_[0] - P_[0]), P_[1] + t1 * (Q_[1] - P_[1]))
            R2 = (P_[0] + t2 * (Q_[0] - P_[0]), P_[1] + t2 * (Q_[1] - P_[1]))
            symx.ctx().assume(T_bool(And(t1 > 0, t1 < t2, t2 < 1, chk.Eq(R1[0] * R1[0] + R1[1] * R1[1], 1), chk.Eq(R2[0] * R2[0] + R2[1] * R2[1], 1))))
            dist2 = lambda P2: (P2[0] - P_[0]) ** 2 + (P2[1] - P_[1]) ** 2
            D2 = m.define('D2', (Q_[0] - P_[0]) * (Q_[0] - P_[0]) + (Q_[1] - P_[1]) * (Q_[1] - P_[1]))
            m.lemma('the far side has positive length', D2 > 0, use=['def D2'])
            m.lemma('distance of the first crossing from V2', chk.Eq(dist2(R1), t1 * t1 * D2), use=['def D2'])
            m.lemma('distance of the second crossing from V2', chk.Eq(dist2(R2), t2 * t2 * D2), use=['def D2'])
            m.lemma('squares of the parameters are ordered', t1 * t1 < t2 * t2, use=[])
            m.lemma('the first crossing is nearer to V2', dist2(R1) < dist2(R2),
                    use=['distance of the first', 'distance of the second', 'squares of the parameters', 'the far side has positive'])
            r1x, r1y, r2x, r2y = m.define('r1x', R1[0]), m.define('r1y', R1[1]), m.define('r2x', R2[0]), m.define('r2y', R2[1])
            m.lemma('the crossings are on the unit circle (named coordinates)', And(chk.Eq(r1x * r1x + r1y * r1y, 1), chk.Eq(r2x * r2x + r2y * r2y, 1)),
                    use=['def r1x', 'def r1y', 'def r2x', 'def r2y'])
            m.lemma('named coordinates: both crossings have x <= 1', And(r1x <= 1, r2x <= 1), use=['the crossings are on the unit circle'])
            m.lemma('both crossings have x <= 1', And(R1[0] <= 1, R2[0] <= 1), use=['named coordinates: both', 'def r1x', 'def r2x'])
            gap = m.define('gap', (r1x - r2x) * (r1x - r2x) + (r1y - r2y) * (r1y - r2y))
            m.lemma('squared distance between the crossings', chk.Eq(gap, (t2 - t1) * (t2 - t1) * D2), use=['def gap', 'def r1x', 'def r1y', 'def r2x', 'def r2y', 'def D2'])
            m.lemma('the crossings are distinct', gap > 0, use=['squared distance between', 'the far side has positive'])
            m.lemma('inner product of the crossings', chk.Eq(2 * (r1x * r2x + r1y * r2y), 2 - gap), use=['def gap', 'the crossings are on the unit circle'])
            m.lemma('the chord end points differ: their inner product is below 1', r1x * r2x + r1y * r2y < 1, use=['inner product of the crossings', 'the crossings are distinct'])
            m.lemma('the midpoint of the chord is strictly inside the disc',
                    ((r1x + r2x) / 2) * ((r1x + r2x) / 2) + ((r1y + r2y) / 2) * ((r1y + r2y) / 2) < 1,
                    use=['the chord end points differ', 'the crossings are on the unit circle'])
            o1, o2 = (R2, R1) if sub == 'swap' else (R1, R2)
            chords.append((guard, P_, Q_, R1, R2, t1, t2))
        elif later:
            # a side the routine evaluates but does not look at in this configuration: any result allowed by the specification
            f1, f2 = fresh_pt(I, 'anyA'), fresh_pt(I, 'anyB')
            o1, o2 = f1, f2
        else:
            m.require('circle_segment is only called on sides that miss the disc in this configuration', Implies(gg, _misses(P_, Q_)))
            o1 = o2 = (two, two)
        st._f['p1'] = _pt(I, m, *o1)
        st._f['p2'] = _pt(I, m, *o2)
        return st

    def h_arc(I, args, guard):
        a_ = [V(t, m) for t in args]
        return T(seg(m, a_[0], a_[1], a_[2], a_[3], 1))

    tris = []

    def h_tri(I, args, guard):
        val = SymReal(Rnum(I.run(I.funcs['area_triangle'], args, guard)))
        k = len(tris)
        a_ = [V(t, m) for t in args]
        pts = [(a_[0], a_[1]), (a_[2], a_[3]), (a_[4], a_[5])]
        atom = m.define(f'tri {k}', val)
        m.lemma(f'area_triangle call {k} = |shoelace|', chk.Eq(atom, chk.Abs(shoelace(pts))), use=[f'def tri {k}'])
        tris.append((pts, atom, k))
        return atom.t

    def named_area(name, pts):
        """a named signed area S together with the fact that the routine's triangle on the same three points is |S|"""
        S = m.define(name, shoelace(pts))
        first = None
        for (q, atom, k) in tris:
            if any(all(_same(m, a_[0], b_[0]) and _same(m, a_[1], b_[1]) for a_, b_ in zip(q, [pts[i] for i in pi])) for pi in itertools.permutations(range(3))):
                m.lemma(f'|{name}| is triangle call {k}', chk.Eq(atom, chk.Abs(S)), use=[f'area_triangle call {k}', f'def {name}'])
                first = atom if first is None else first
        return S, first

    def h_nested(I, args, guard):
        c = SymReal(z3.Real(symx.ctx().name('nested')))
        nested.append((guard, [V(t, m) for t in args], c))
        return c.t
    I = interp(m, 'core', {'circle_segment_single2': h_single, 'circle_segment': h_chord, 'area_arc_unit': h_arc, 'area_triangle': h_tri,
                           'overlap_area_triangle_unit_circle': h_nested}, prune=True)
    v = V(I.run(I.funcs['overlap_area_triangle_unit_circle'], [T(x) for x in X], z3.BoolVal(True)), m)
    finish(m, I)
    tri = lambda a_, b_, c_: chk.Abs(shoelace([a_, b_, c_]))

    def single_for(A_, O_):
        hit = [P for (g, a_, o_, P, s_) in singles if all(_same(m, p_, q_) for p_, q_ in zip(a_ + o_, A_ + O_))]
        return hit[0] if hit else None
    if kind == 'all-inside':
        m.require('all vertices inside: the overlap is the triangle', chk.Eq(v, tri(V1, V2, V3)))
    elif kind == 'two-inside':
        PA, PB = single_for(V1, V3), single_for(V2, V3)
        m.require('two vertices inside: the crossing points of the two sides that leave the disc are computed', PA is not None and PB is not None)
        if PA is None or PB is None:
            return
        # the part of the triangle in the disc = quadrilateral V1 V2 PB PA (convex) + the circular segment on PA PB
        sA = [c_[4] for c_ in singles if c_[3] is PA][0]
        sB = [c_[4] for c_ in singles if c_[3] is PB][0]
        O2 = m.define('twice the signed area of the triangle', 2 * shoelace([V1, V2, V3]))
        S1, T1 = named_area('S1', [V1, V2, PA])
        S2, T2 = named_area('S2', [V2, PB, PA])
        m.require('two vertices inside: the routine evaluates the triangles V1 V2 PA and V2 PA PB', T1 is not None and T2 is not None and len(tris) == 2)
        if T1 is None or T2 is None:
            return
        Q = m.define('Q', shoelace([V1, V2, PB, PA]))
        m.lemma('orientation of V1 V2 PA', chk.Eq(2 * S1, sA * O2), use=['def twice', 'def S1'])
        m.lemma('orientation of V2 PB PA', chk.Eq(2 * S2, sB * (1 - sA) * O2), use=['def twice', 'def S2'])
        m.lemma('the two triangles have the same orientation', S1 * S2 >= 0, use=['orientation of V1 V2 PA', 'orientation of V2 PB PA'])
        m.lemma('quadrilateral = sum of the two triangles', chk.Eq(Q, S1 + S2), use=['def Q', 'def S1', 'def S2'])
        m.lemma('areas add', chk.Eq(chk.Abs(Q), T1 + T2), use=['the two triangles have the same', 'quadrilateral = sum', '|S1| is', '|S2| is'])
        ref = chk.Abs(Q) + seg1(m, PA, PB)
        m.require('two vertices inside: overlap = quadrilateral (two vertices, two crossings) + circular segment on the crossings', chk.Eq(v, ref),
                  use=['areas add'])
    elif kind.startswith('one-inside'):
        P3, P4 = single_for(V1, V2), single_for(V1, V3)
        m.require('one vertex inside: the crossing points of its two sides are computed', P3 is not None and P4 is not None)
        if P3 is None or P4 is None:
            return
        if kind.endswith('miss'):
            # beyond the chord P3 P4 lies a circular segment: the minor one iff the centre is on the same side of the chord as V1
            o = (0 * X[0], 0 * X[0])
            sideO = 2 * shoelace([P3, P4, o])
            sideV = 2 * shoelace([P3, P4, V1])
            m.assume(sideO > 0 if sub[0] == '+' else sideO < 0)        # `sub` enumerates the four sign patterns (ties have measure zero)
            m.assume(sideV > 0 if sub[1] == '+' else sideV < 0)
            S, Tk = named_area('S', [V1, P3, P4])
            m.require('one vertex inside: the routine evaluates the triangle (vertex, two crossings)', Tk is not None)
            if Tk is None:
                return
            part = seg1(m, P3, P4) if sub[0] == sub[1] else symx.SymReal(symx.PI) - seg1(m, P3, P4)
            m.require('one vertex inside, far side outside the disc: overlap = triangle (vertex, two crossings) + the circular segment beyond the chord '
                      '(the major one when the centre lies beyond the chord)', chk.Eq(v, chk.Abs(S) + part), use=['|S| is'])
        else:
            ch = [c_ for c_ in chords if all(_same(m, p_, q_) for p_, q_ in zip(c_[1] + c_[2], V2 + V3))]
            m.require('one vertex inside, far side crosses the disc: its two crossing points are computed', len(ch) == 1)
            if len(ch) != 1:
                return
            R1, R2 = ch[0][3], ch[0][4]
            Qa, Qb = R1, R2          # ordered along V2 -> V3: R1 is the crossing nearer to V2
            Sa, Ta = named_area('Sa', [V1, P3, Qa])
            Sb, Tb = named_area('Sb', [V1, Qa, Qb])
            Sc, Tc = named_area('Sc', [V1, Qb, P4])
            m.require('one vertex inside, far side crosses the disc: the routine evaluates the fan V1 P3 Qa, V1 Qa Qb, V1 Qb P4',
                      Ta is not None and Tb is not None and Tc is not None and len(tris) == 3)
            if Ta is None or Tb is None or Tc is None:
                return
            ref = chk.Abs(Sa) + chk.Abs(Sb) + chk.Abs(Sc) + seg1(m, Qa, P3) + seg1(m, Qb, P4)
            m.require('one vertex inside, far side crosses the disc: overlap = fan of three triangles from the vertex + two circular segments', chk.Eq(v, ref),
                      use=['|Sa| is', '|Sb| is', '|Sc| is'])
    elif kind == 'none-inside/miss':
        import ast as _ast
        # the routine decides "centre in triangle" by the parity of the sides that cross the ray y = 0, x > 0; the reference is the
        # orientation test.  Each crossing comparison of the routine (taken from its own source) is related to a 2x2 determinant.
        Vs = [V1, V2, V3]
        ysign = {id(Pn[k_]): sg for k_, sg in enumerate(sub)}
        sg = [ysign[id(Vs[k_])] for k_ in range(3)]
        det = {}
        for (a_, b_) in ((0, 1), (1, 2), (2, 0)):
            det[(a_, b_)] = m.define(f'det{a_ + 1}{b_ + 1}', Vs[a_][0] * Vs[b_][1] - Vs[b_][0] * Vs[a_][1])
        fn = I.funcs['in_triangle']
        cmps = [st.value.values[1] for st in fn.body if isinstance(st, _ast.AugAssign)]
        m.require('in_triangle has one crossing test per side', len(cmps) == 3)
        if len(cmps) != 3:
            return
        zero = z3.RealVal(0)
        env = {'x': zero, 'y': zero, 'x1': T(V1[0]), 'y1': T(V1[1]), 'x2': T(V2[0]), 'y2': T(V2[1]), 'x3': T(V3[0]), 'y3': T(V3[1])}
        for k_, (a_, b_) in enumerate(((0, 1), (1, 2), (2, 0))):
            if sg[a_] == sg[b_]:
                continue                                   # this side does not straddle the ray's line: it is not counted
            kc = symx.SymBool(I.ev(cmps[k_], env, z3.BoolVal(True)))
            want = det[(a_, b_)] < 0 if sg[a_] == '+' else det[(a_, b_)] > 0
            m.lemma(f'side {a_ + 1}{b_ + 1}: the crossing lies to the right of the centre iff the determinant has the sign that goes with the direction of the side',
                    Iff(kc, want), use=[f'def det{a_ + 1}{b_ + 1}'])
        m.lemma('the three determinants are linearly dependent (y3 det12 + y1 det23 + y2 det31 = 0)',
                chk.Eq(V3[1] * det[(0, 1)] + V1[1] * det[(1, 2)] + V2[1] * det[(2, 0)], 0), use=['def det'])
        d12, d23, d31 = det[(0, 1)], det[(1, 2)], det[(2, 0)]
        inside_tri = Or(And(d12 > 0, d23 > 0, d31 > 0), And(d12 < 0, d23 < 0, d31 < 0))
        on_edge_line = Or(chk.Eq(d12, 0), chk.Eq(d23, 0), chk.Eq(d31, 0))
        m.require('no vertex inside, no side meets the disc: the overlap is the whole disc (pi) if the centre is in the triangle, else 0',
                  Or(on_edge_line, chk.Eq(v, If(inside_tri, symx.SymReal(symx.PI), 0 * X[0]))), use=['side ', 'the three determinants'])


    elif kind.startswith('none-inside/chord-'):
        (A_, B_), C_ = {'12': ((V1, V2), V3), '23': ((V2, V3), V1), '31': ((V3, V1), V2)}[kind[-2:]]
        m.require('a crossing side: its two crossing points are computed', len(chords) == 1)
        if len(chords) != 1:
            return
        _, P_, Q_, R1, R2, t1, t2 = chords[0]
        Mid = ((R1[0] + R2[0]) / 2, (R1[1] + R2[1]) / 2)
        m.require('no vertex inside, one side crosses the disc: the triangle is split into two sub-triangles (nested evaluations)', len(nested) == 2)
        if len(nested) != 2:
            return
        subt = [[(a_[0], a_[1]), (a_[2], a_[3]), (a_[4], a_[5])] for (_, a_, _) in nested]

        def same_tri(t_, ref_):
            return Or(*[And(*[And(chk.Eq(t_[k_][0], ref_[pi[k_]][0]), chk.Eq(t_[k_][1], ref_[pi[k_]][1])) for k_ in range(3)])
                        for pi in itertools.permutations(range(3))])
        r1, r2 = (A_, C_, Mid), (B_, C_, Mid)
        m.require('the two sub-triangles are (A, C, M) and (B, C, M) with M the midpoint of the chord cut from side AB: they tile the triangle',
                  Or(And(same_tri(subt[0], r1), same_tri(subt[1], r2)), And(same_tri(subt[0], r2), same_tri(subt[1], r1))))
        tm = (t1 + t2) / 2
        m.require('M lies on side AB strictly between its end points', And(tm > 0, tm < 1, chk.Eq(Mid[0], P_[0] + tm * (Q_[0] - P_[0])), chk.Eq(Mid[1], P_[1] + tm * (Q_[1] - P_[1]))))
        m.require('M is strictly inside the disc (so the nested evaluations do not recurse again)', Mid[0] * Mid[0] + Mid[1] * Mid[1] < 1,
                  use=['the midpoint of the chord is strictly inside', 'def r1x', 'def r1y', 'def r2x', 'def r2y'])
        m.require('overlap = sum of the overlaps of the two sub-triangles', chk.Eq(v, nested[0][2] + nested[1][2]), use=[])


def T_bool(b):
    return b.t if isinstance(b, symx.SymBool) else z3.BoolVal(bool(b))


# --------------------------------------------------------------------------
# L6 the segment formula
# --------------------------------------------------------------------------
def h_arc_formula(unit, m):
    x1, y1, x2, y2 = m.real('x1'), m.real('y1'), m.real('x2'), m.real('y2')
    r = m.pos('r') if not unit else 1

    def asin_(I, args, guard):
        return _asin(Rnum(args[0])) if m.sym else math.asin(min(1.0, max(-1.0, args[0])))

    def sin_(I, args, guard):
        return _sin(Rnum(args[0])) if m.sym else math.sin(args[0])
    I = interp(m, 'core', {'asin': asin_, 'sin': sin_})
    a = A(m, [x1, y1, x2, y2])
    if unit:
        v = V(I.call('area_arc_unit', a), m)
    else:
        v = V(I.call('area_arc', a + A(m, [r])), m)
    finish(m, I)
    chord = csqrt((x2 - x1) * (x2 - x1) + (y2 - y1) * (y2 - y1))
    # a proper chord (the comparison is term against term, so the range only keeps counter-models away from the degenerate chord 0)
    m.assume(And(chord * 10 >= r, chord * 10 <= 19 * r))
    if m.sym:
        th = 2 * SymReal(_asin(T(chord / (2 * r))))
        ref = r * r * (th - SymReal(_sin(th.t))) / 2
    else:
        th = 2 * math.asin(min(1.0, chord / (2 * r)))
        ref = r * r * (th - math.sin(th)) / 2
    m.require('circular segment area = r^2 (theta - sin theta) / 2 with theta = 2 asin(chord / 2r)', chk.Eq(v, ref))


# --------------------------------------------------------------------------
# L0 plumbing
# --------------------------------------------------------------------------
class _Recorded(Exception):
    pass


BB = 'regions.core.bounding_box'


def h_plumbing(kind, aunit, m, reassign=False):
    from regions import CirclePixelRegion, EllipsePixelRegion, PixCoord
    m.shim(BB, '_is_int', symx.sym_is_int)
    m.shim(BB, 'int', symx.sint)
    mod = 'regions.shapes.circle' if kind == 'circle' else 'regions.shapes.ellipse'
    m.shim(mod, 'float', symx.sfloat)
    rec = {}
    SENT = [1 - 5e-6, 5e-9, 0.5, 1.0, 0.0, 0.25 + 1e-7]

    def out(nx, ny):
        nx, ny = kernels._int(nx), kernels._int(ny)
        a = np.array([SENT[k % len(SENT)] for k in range(nx * ny)], dtype=float).reshape(ny, nx)
        rec['out'] = a.copy()
        return a

    def rec_c(xmin, xmax, ymin, ymax, nx, ny, r, use_exact, subpixels):
        rec.update(xmin=xmin, xmax=xmax, ymin=ymin, ymax=ymax, nx=nx, ny=ny, r=r, use_exact=use_exact, subpixels=subpixels)
        return out(nx, ny)

    def rec_e(xmin, xmax, ymin, ymax, nx, ny, rx, ry, theta, use_exact, subpixels):
        rec.update(xmin=xmin, xmax=xmax, ymin=ymin, ymax=ymax, nx=nx, ny=ny, rx=rx, ry=ry, theta=theta,
                   use_exact=use_exact, subpixels=subpixels)
        return out(nx, ny)
    if m.sym:
        m.shim(mod, 'np', kernels.NPFacade())
    if reassign:
        # the first set of parameters is concrete (any would do): only the re-assigned ones matter for the obligations
        cx, cy = 0.25, -0.5
    else:
        cx, cy = m.real('cx'), m.real('cy')
    if kind == 'circle':
        m.shim(mod, 'circular_overlap_grid', rec_c, both=True)
        r = 0.75 if reassign else m.pos('r', hi=1.2)
        reg = CirclePixelRegion(PixCoord(cx, cy), r)
    else:
        m.shim(mod, 'elliptical_overlap_grid', rec_e, both=True)
        w, h = (1.25, 0.5) if reassign else (m.pos('w', hi=1.6), m.pos('h', hi=1.6))
        ang = None if aunit == 'default' else (35 * u.deg if reassign else m.angle('theta', aunit))
        reg = EllipsePixelRegion(PixCoord(cx, cy), w, h, **({} if ang is None else {'angle': ang}))
    if reassign:
        # the mask is computed once, then every parameter is re-assigned: the second mask must be that of the new parameters
        reg.to_mask(mode='exact')
        rec.clear()
        cx, cy = m.real('cx2'), m.real('cy2')
        reg.center = PixCoord(cx, cy)
        if kind == 'circle':
            r = m.pos('r2', hi=1.2)
            reg.radius = r
        else:
            w, h = m.pos('w2', hi=1.6), m.pos('h2', hi=1.6)
            reg.width, reg.height = w, h
            ang = m.angle('theta2', aunit)
            reg.angle = ang
    bb = reg.bounding_box
    mask = reg.to_mask(mode='exact')
    m.require('kernel is called', 'out' in rec)
    if 'out' not in rec:
        return
    data = np.asarray(mask.data)
    m.require('the mask is exactly what the kernel returned (no post-processing of the overlap fractions)',
              data.shape == rec['out'].shape and bool(np.all(data == rec['out'])))
    m.require('the mask is anchored at the bounding box', And(mask.bbox.ixmin == bb.ixmin, mask.bbox.iymin == bb.iymin,
                                                              mask.bbox.ixmax == bb.ixmax, mask.bbox.iymax == bb.iymax))
    m.require('grid x-extent = pixel edges of the bounding box, recentred on the shape',
              And(chk.Eq(rec['xmin'], bb.ixmin - 0.5 - cx), chk.Eq(rec['xmax'], bb.ixmax - 0.5 - cx)))
    m.require('grid y-extent = pixel edges of the bounding box, recentred on the shape',
              And(chk.Eq(rec['ymin'], bb.iymin - 0.5 - cy), chk.Eq(rec['ymax'], bb.iymax - 0.5 - cy)))
    m.require('grid size = box shape (unit pixels)', And(rec['nx'] == bb.ixmax - bb.ixmin, rec['ny'] == bb.iymax - bb.iymin))
    m.require('exact mode is requested from the kernel', rec['use_exact'] == 1)
    if kind == 'circle':
        m.require('radius is handed over unchanged', chk.Eq(rec['r'], r))
    else:
        m.require('semi-axes are half the width / height', And(chk.Eq(2 * rec['rx'], w), chk.Eq(2 * rec['ry'], h)))
        ct, st = symx.angle_cs(rec['theta'] * u.rad) if not isinstance(rec['theta'], u.Quantity) else symx.angle_cs(rec['theta'])
        c0, s0 = (1.0, 0.0) if ang is None else symx.angle_cs(ang)
        m.require('angle is handed over in radians', And(ct == c0, st == s0) if m.sym else
                  (abs(ct - c0) < 1e-12 and abs(st - s0) < 1e-12))


CASES3 = ('pos', 'neg', 'straddle')


def harnesses(tier):
    P = functools.partial
    hs = []
    for case in ('outside', 'inside', 'c1c2', 'c1', 'c2', 'none'):
        hs.append((f'circle/core/{case}', P(h_core, case)))
    for xc in CASES3:
        for yc in CASES3:
            hs.append((f'circle/quadrants/x-{xc}/y-{yc}', P(h_quadrants, xc, yc)))
    for nx, ny in ((1, 1), (2, 2)) if tier == 'quick' else ((1, 1), (2, 1), (1, 2), (2, 2), (3, 2), (3, 3)):
        for i in range(nx):
            for j in range(ny):
                for xc in CASES3:
                    for yc in CASES3:
                        hs.append((f'circle/grid/{nx}x{ny}/pixel-{i}-{j}/x-{xc}/y-{yc}', P(h_circle_grid, nx, ny, i, j, xc, yc)))
    for nx, ny in ((1, 1), (2, 2)) if tier == 'quick' else ((1, 1), (2, 1), (2, 2), (3, 3)):
        for i in range(nx):
            for j in range(ny):
                for xc in CASES3:
                    for yc in CASES3:
                        for mj in ('rx', 'ry'):
                            hs.append((f'ellipse/grid/{nx}x{ny}/pixel-{i}-{j}/x-{xc}/y-{yc}/major-{mj}', P(h_ellipse_grid, nx, ny, i, j, xc, yc, mj)))
    hs.append(('ellipse/within-major-axis-disc', h_ellipse_in_disc))
    hs.append(('ellipse/single-pixel', h_ellipse_single))
    for sl in ('x', 'y'):
        for dr in ('+', '-'):
            for sg in ('+', '-'):
                hs.append((f'triangle/crossing-point/slope-{sl}/towards{dr}/slope-sign{sg}', P(h_crossing, sl, dr, sg)))
    import itertools
    perms = list(itertools.permutations(range(3)))
    for kind in ('all-inside', 'two-inside', 'one-inside/miss', 'one-inside/chord', 'none-inside/miss', 'none-inside/chord-12', 'none-inside/chord-23', 'none-inside/chord-31'):
        for od in (perms if tier != 'quick' else perms[::2] if kind != 'two-inside' else perms):
            subs = {'one-inside/miss': ('++', '+-', '-+', '--'), 'one-inside/chord': ('', 'swap'),
                    'none-inside/miss': ('+++', '++-', '+-+', '+--', '-++', '-+-', '--+', '---')}.get(kind, ('',))
            for sb in subs:
                tag = f'triangle/{kind}/order-{"".join(str(k + 1) for k in od)}' + (f'/{"signs" if sb != "swap" else ""}{sb}' if sb else '')
                hs.append((tag, P(h_triangle, kind, od, sb)))
    hs.append(('segment-formula/radius-r', P(h_arc_formula, False)))
    hs.append(('segment-formula/unit', P(h_arc_formula, True)))
    hs.append(('plumbing/circle', P(h_plumbing, 'circle', None)))
    for au in ('default', 'deg', 'rad'):
        hs.append((f'plumbing/ellipse/{au}', P(h_plumbing, 'ellipse', au)))
    hs.append(('plumbing/circle/reassigned', P(h_plumbing, 'circle', None, reassign=True)))
    hs.append(('plumbing/ellipse/reassigned/deg', P(h_plumbing, 'ellipse', 'deg', reassign=True)))
    return hs


def cases(tier, seed):
    cs = []
    for name, h in harnesses(tier):
        kw = {}
        if name.startswith(('triangle/', 'circle/core', 'circle/quadrants')):
            kw['preprobe'] = {'n': 400, 'span': 2.0, 'budget_s': 10.0}
        cs.append((name, functools.partial(chk.run_case, 'C03', name, h, max_paths=300, **kw)))
    return cs


META = {
    'technique': 'pyx-level symbolic execution of the real kernels (E2) and of the real to_mask (E1) with uninterpreted area functions + SMT (z3 NRA/UF); '
                 'lemma chains, each lemma proved before it is used; linear-abstraction branch pruning during interpretation',
    'functions_encoded': ['regions.shapes.circle.CirclePixelRegion.to_mask / regions.shapes.ellipse.EllipsePixelRegion.to_mask (mode=exact)',
                          'regions/_geometry/circular_overlap.pyx: circular_overlap_grid, circular_overlap_single_exact, circular_overlap_core',
                          'regions/_geometry/elliptical_overlap.pyx: elliptical_overlap_grid, elliptical_overlap_single_exact',
                          'regions/_geometry/core.pyx: area_arc, area_arc_unit, area_triangle, floor_sqrt, distance, circle_line, circle_segment_single2, '
                          'in_triangle, overlap_area_triangle_unit_circle'],
    'bounds': {'quick': {'grids': '1x1 and 2x2 pixels, every pixel, 9 sign positions of the pixel relative to the centre (ellipse: x 2 for which semi-axis is larger)',
                         'geometry': 'all extents / radii / semi-axes / angles / triangle vertices are unbounded reals',
                         'triangle configurations': 'all-inside, two-inside (6 vertex orders), one-inside with far side missing the disc (3 orders x 4 sign patterns) or '
                                                    'crossing it (3 orders x 2 result orders), none-inside with no side meeting the disc (3 orders x 8 sign patterns), '
                                                    'none-inside with side 12 / 23 / 31 crossing (3 orders each)',
                         'plumbing': 'circle r <= 1.2, ellipse width / height <= 1.6 (box shapes up to 4x4), angle units default / deg / rad',
                         'recursion': 'overlap_area_triangle_unit_circle: one level, nested calls treated inductively (their first vertex is proved strictly inside the disc)'},
               'thorough': {'grids': '1x1, 2x1, 1x2, 2x2, 3x2, 3x3 (circle); 1x1, 2x1, 2x2, 3x3 (ellipse)', 'triangle configurations': 'all 6 vertex orders for every configuration'}},
    'outside_claim': ['the identity "r^2 (theta - sin theta) / 2 is the area of the circular segment" (asin / sin are uninterpreted; the routine is only compared with that formula)',
                      'floating-point error of the kernels (the 1e-8 of the statement), finiteness and [0, 1] as floating-point facts',
                      'the convergence rate of sub-pixel masks (C02 proves what a sub-pixel mask is, not how fast it converges)',
                      'vertices within 1e-9 (squared distance) of the circle and points closer than 1e-9: the tolerance branches (on1/on2/on3, coincident points) of the triangle routine',
                      'area additivity under the split of a triangle and under the quadrant / two-triangle decompositions is geometry, used in the paper composition of the layers',
                      'the specification of circle_segment (two crossings of a segment whose end points are outside) is assumed, not proved (circle_segment_single2 is proved)'],
    'stubs': ['segment area, first-quadrant overlap, single-pixel overlap, triangle overlap: uninterpreted (symmetric where the geometry is) / fresh reals per evaluation',
              'circle_segment_single2 and circle_segment replaced by their specifications inside the triangle routine; cos / sin of the ellipse angle: unit-circle atom',
              'replay: numeric reference areas of vf/areas.py (chord-length integration, edge walk)'],
    'assumptions': ['real-number semantics of the kernels', 'specification of circle_segment (see outside_claim)',
                    'textbook circular-segment formula'],
}
