"""C02 centre and subpixel masks are the sampled membership function."""
import functools
import math

import numpy as np
import z3
import astropy.units as u

from vf import chk, oracle as O, symx, kernels
from vf.chk import And, Or, Not, Implies, Iff, If

BB = 'regions.core.bounding_box'
SHAPEMODS = ['regions.shapes.circle', 'regions.shapes.ellipse', 'regions.shapes.rectangle', 'regions.shapes.polygon']


def shims(m):
    m.shim(BB, '_is_int', symx.sym_is_int)
    m.shim(BB, 'int', symx.sint)
    m.shim(BB, 'float', symx.sfloat)
    m.shim(BB, 'np', kernels.NPFacade())
    for mod in SHAPEMODS:
        m.shim(mod, 'float', symx.sfloat)
    kernels.install(m)


def cells_of(mask):
    return np.asarray(mask.data, dtype=object).view(np.ndarray)


def _truth(term, subs):
    v = z3.simplify(z3.substitute(term, *subs))
    return z3.is_true(v) if (z3.is_true(v) or z3.is_false(v)) else None


def _match(V, INS, seed=1):
    """pair code verdict terms V[k] with spec sample predicates INS[q] by their truth vectors
    on random rational assignments (a guess only: the pairing is then *proved*)"""
    import random
    from vf import solve
    rnd = random.Random(seed)
    syms = {}
    for t in list(V) + list(INS):
        syms.update(solve.free_vars(t))
    vecs_v = [[] for _ in V]
    vecs_s = [[] for _ in INS]
    for _ in range(24):
        subs = []
        for s in syms.values():
            if z3.is_real(s):
                subs.append((s, z3.RealVal(f'{rnd.randint(-300, 300)}/100')))
            elif z3.is_bool(s):
                subs.append((s, z3.BoolVal(rnd.random() < 0.5)))
        for k, t in enumerate(V):
            vecs_v[k].append(_truth(t, subs))
        for q, t in enumerate(INS):
            vecs_s[q].append(_truth(t, subs))
    free = set(range(len(INS)))
    pairing = []
    for k in range(len(V)):
        best, bq = -1, None
        for q in sorted(free):
            sc = sum(1 for a, b in zip(vecs_v[k], vecs_s[q]) if a is not None and a == b)
            if sc > best:
                best, bq = sc, q
        pairing.append(bq)
        free.discard(bq)
    return pairing


def sample_bounds(m, tag, mask, n, fin, fout, include=True, hint=None):
    """every mask value lies between the fraction of the n x n regularly spaced sub-sample
    centres that are strictly inside and the fraction that are not strictly outside.

    Symbolic mode with a kernel-produced mask: the cell is sum_k w_k [cond_k] (kept as an
    indicator sum by the kernel interpreter).  With W1 the weight-1 items (whole-pixel fast
    paths) and Wn the n*n weight-1/n^2 items, the cell equals (1/n^2) sum_k [V_k] with
    V_k = or(W1) or Wn[k] provided the items are mutually exclusive (proved); the bounds
    then follow from a proved one-to-one pairing  strictly-inside(sample) => V_k and
    strictly-outside(sample) => not V_k."""
    from fractions import Fraction
    from vf.pyxsym import ISum
    bb = mask.bbox
    data = cells_of(mask)
    ny, nx = data.shape
    cells = getattr(mask.data, 'cells', None) if m.sym else None
    for j in range(ny):
        for i in range(nx):
            pts = []
            for a in range(n):
                for b in range(n):
                    # exact rational sample offsets (a float such as 0.5/3 is not the real number 1/6)
                    X = bb.ixmin + i - 0.5 + _frac(m, 2 * a + 1, 2 * n) if n > 1 else bb.ixmin + i
                    Y = bb.iymin + j - 0.5 + _frac(m, 2 * b + 1, 2 * n) if n > 1 else bb.iymin + j
                    pts.append((X, Y))
            v = data[j, i]
            if hint is not None and m.sym:
                for (X, Y) in pts:
                    for hn, hf in hint(X, Y):
                        m.lemma(f'{tag}: pixel[{j},{i}] {hn}', hf)
            cell = cells[j][i] if cells is not None else None
            done = False
            if cell is not None and (isinstance(cell, ISum) or isinstance(cell, (int, float))):
                items = list(cell.items) if isinstance(cell, ISum) else []
                const = cell.const if isinstance(cell, ISum) else cell
                w1 = [c_ for c_, k_ in items if Fraction(k_) == 1]
                wn = [c_ for c_, k_ in items if Fraction(k_) == Fraction(1, n * n)] if n > 1 else []
                if n == 1:
                    wn = []
                ok_struct = (const == 0 and len(w1) + len(wn) == len(items) and len(wn) in (0, n * n))
                if ok_struct:
                    done = True
                    allc = w1 + wn
                    if len(allc) > 1:
                        excl = z3.And(*[z3.Not(z3.And(allc[p], allc[q])) for p in range(len(allc))
                                        for q in range(p + 1, len(allc)) if p < len(w1) or q < len(w1)]) \
                            if w1 else z3.BoolVal(True)
                        m.require(f'{tag}: pixel[{j},{i}] whole-pixel and sub-sample contributions are exclusive',
                                  symx.SymBool(excl))
                    any1 = z3.Or(*w1) if w1 else z3.BoolVal(False)
                    V = [z3.Or(any1, wn[k]) if wn else any1 for k in range(n * n)]
                    ins = [fin(X, Y) for X, Y in pts]
                    outs = [fout(X, Y) for X, Y in pts]
                    pairing = list(range(n * n))     # kernel loop order: x outer, y inner
                    for k in range(n * n):
                        q = pairing[k]
                        m.require(f'{tag}: pixel[{j},{i}] sub-sample {q}: strictly inside => counted',
                                  Implies(ins[q], symx.SymBool(V[k])))
                        m.require(f'{tag}: pixel[{j},{i}] sub-sample {q}: strictly outside => not counted',
                                  Implies(outs[q], Not(symx.SymBool(V[k]))))
                    if n == 1:
                        m.require(f'{tag}: pixel[{j},{i}] is 0 or 1', Or(v == 0, v == 1))
            if not done:
                lo = 0
                hi = 0
                for X, Y in pts:
                    lo = lo + If(fin(X, Y), 1, 0)
                    hi = hi + If(fout(X, Y), 0, 1)
                m.require(f'{tag}: pixel[{j},{i}] >= fraction of sub-samples strictly inside', lo <= v * (n * n))
                m.require(f'{tag}: pixel[{j},{i}] <= fraction of sub-samples not strictly outside', v * (n * n) <= hi)
                if n == 1:
                    m.require(f'{tag}: pixel[{j},{i}] is 0 or 1', Or(v == 0, v == 1))


def _frac(m, p, q):
    """the rational p/q: exact in the symbolic run, the nearest double in replay"""
    from fractions import Fraction
    return symx.SymReal(z3.RealVal(f'{p}/{q}')) if m.sym else p / q


def box_checks(m, tag, reg, mask):
    from regions import RegionMask
    bb = reg.bounding_box
    mb = mask.bbox
    m.require(f'{tag}: mask.bbox equals region.bounding_box',
              And(mb.ixmin == bb.ixmin, mb.ixmax == bb.ixmax, mb.iymin == bb.iymin, mb.iymax == bb.iymax))
    shp = np.shape(mask.data)
    m.require(f'{tag}: mask has exactly the shape of the bounding box',
              And(shp[0] == bb.iymax - bb.iymin, shp[1] == bb.ixmax - bb.ixmin))
    m.require(f'{tag}: result is a RegionMask', isinstance(mask, RegionMask))


def h_circle(mode, n, rmax, m):
    from regions import CirclePixelRegion, PixCoord
    shims(m)
    cx, cy = m.real('cx'), m.real('cy')
    r = m.pos('r', hi=rmax)
    reg = CirclePixelRegion(PixCoord(cx, cy), r)
    kw = {'mode': mode}
    if mode == 'subpixels':
        kw['subpixels'] = n
    mask = reg.to_mask(**kw)
    tag = f'{mode}{n if mode == "subpixels" else ""}'
    box_checks(m, tag, reg, mask)
    nn = 1 if mode == 'center' else n
    sample_bounds(m, tag, mask, nn, lambda X, Y: O.disk_in(X, Y, cx, cy, r), lambda X, Y: O.disk_out(X, Y, cx, cy, r))


def h_circle_history(m):
    """the mask is a fresh array every time: writing into a returned mask does not change later masks of the same (or an equal) circle"""
    from regions import CirclePixelRegion, PixCoord
    shims(m)
    cx, cy = m.real('cx'), m.real('cy')
    r = m.pos('r', hi=1)
    reg = CirclePixelRegion(PixCoord(cx, cy), r)
    first = reg.to_mask(mode='center')
    data = np.asarray(first.data)
    for idx in np.ndindex(*data.shape):
        first.data[idx] = 7
    for tag, again in (('same region', reg.to_mask(mode='center')), ('equal region', CirclePixelRegion(PixCoord(cx, cy), r).to_mask(mode='center'))):
        m.require(f'{tag}: a new array is returned', again.data is not first.data)
        box_checks(m, tag, reg, again)
        sample_bounds(m, tag, again, 1, lambda X, Y: O.disk_in(X, Y, cx, cy, r), lambda X, Y: O.disk_out(X, Y, cx, cy, r))


def _angle(m, aunit):
    return None if aunit == 'default' else m.angle('theta', aunit)


def _mask(reg, mode, n):
    kw = {'mode': mode}
    if mode == 'subpixels':
        kw['subpixels'] = n
    return reg.to_mask(**kw), (1 if mode == 'center' else n), f'{mode}{n if mode == "subpixels" else ""}'


def h_ellipse(mode, n, aunit, smax, m):
    from regions import EllipsePixelRegion, PixCoord
    shims(m)
    cx, cy = m.real('cx'), m.real('cy')
    w, h = m.pos('w', hi=smax), m.pos('h', hi=smax)
    ang = _angle(m, aunit)
    kw = {} if ang is None else {'angle': ang}
    c, s = (1.0, 0.0) if ang is None else symx.angle_cs(ang)
    reg = EllipsePixelRegion(PixCoord(cx, cy), w, h, **kw)
    mask, nn, tag = _mask(reg, mode, n)
    box_checks(m, tag, reg, mask)
    R = chk.Max(w, h) / 2

    def hint(X, Y):
        # an ellipse lies in the disk of radius max(semi-axes): guides the proof that the
        # kernel's coarse skip test never drops a pixel whose sample is inside
        return [('ellipse within its major-axis disk',
                 Implies(O.ellipse_in(X, Y, cx, cy, w, h, c, s), (X - cx) * (X - cx) + (Y - cy) * (Y - cy) < R * R))]
    sample_bounds(m, tag, mask, nn, lambda X, Y: O.ellipse_in(X, Y, cx, cy, w, h, c, s),
                  lambda X, Y: O.ellipse_out(X, Y, cx, cy, w, h, c, s), hint=hint)


def h_rect(mode, n, aunit, smax, m):
    from regions import RectanglePixelRegion, PixCoord
    shims(m)
    cx, cy = m.real('cx'), m.real('cy')
    w, h = m.pos('w', hi=smax), m.pos('h', hi=smax)
    ang = _angle(m, aunit)
    kw = {} if ang is None else {'angle': ang}
    c, s = (1.0, 0.0) if ang is None else symx.angle_cs(ang)
    reg = RectanglePixelRegion(PixCoord(cx, cy), w, h, **kw)
    mask, nn, tag = _mask(reg, mode, n)
    box_checks(m, tag, reg, mask)
    sample_bounds(m, tag, mask, nn, lambda X, Y: O.rect_in(X, Y, cx, cy, w, h, c, s),
                  lambda X, Y: O.rect_out(X, Y, cx, cy, w, h, c, s))


def _tri(m, ext):
    """a triangle with vertices within `ext` of vertex 0 (so the box stays small)"""
    cx, cy = m.real('vx0'), m.real('vy0')
    vx = [cx] + [cx + m.real(f'ex{i}', lo=-ext, hi=ext) for i in (1, 2)]
    vy = [cy] + [cy + m.real(f'ey{i}', lo=-ext, hi=ext) for i in (1, 2)]
    return vx, vy


def h_polygon(mode, n, ext, m):
    from regions import PolygonPixelRegion, PixCoord
    shims(m)
    vx, vy = _tri(m, ext)
    # keep the box at most 2 pixels wide/high beyond the first vertex: vertex spread < 1
    for a in range(3):
        for b in range(a + 1, 3):
            m.assume(And(vx[a] - vx[b] < ext, vx[b] - vx[a] < ext, vy[a] - vy[b] < ext, vy[b] - vy[a] < ext))
    dt = object if m.sym else float
    reg = PolygonPixelRegion(PixCoord(np.array(vx, dtype=dt), np.array(vy, dtype=dt)))
    mask, nn, tag = _mask(reg, mode, n)
    box_checks(m, tag, reg, mask)
    sample_bounds(m, tag, mask, nn, lambda X, Y: O.triangle_in(X, Y, vx, vy), lambda X, Y: O.triangle_out(X, Y, vx, vy))


def h_regpoly_plumbing(m):
    """regular polygon masks are the polygon implementation applied to self.vertices"""
    from regions import RegularPolygonPixelRegion, PolygonPixelRegion
    m.require('RegularPolygonPixelRegion.to_mask is PolygonPixelRegion.to_mask',
              RegularPolygonPixelRegion.to_mask is PolygonPixelRegion.to_mask)
    m.require('RegularPolygonPixelRegion.bounding_box is PolygonPixelRegion.bounding_box',
              RegularPolygonPixelRegion.bounding_box is PolygonPixelRegion.bounding_box)
    m.require('vertices are an ordinary attribute of the same descriptor kind',
              type(RegularPolygonPixelRegion.__dict__.get('vertices', PolygonPixelRegion.__dict__['vertices']))
              is type(PolygonPixelRegion.__dict__['vertices']))


def _compound_shims(m):
    m.shim('regions.core.compound', 'np', kernels.NPFacade())


def h_annulus(kind, aunit, smax, m):
    from regions import (CircleAnnulusPixelRegion, EllipseAnnulusPixelRegion, RectangleAnnulusPixelRegion, PixCoord)
    shims(m)
    _compound_shims(m)
    cx, cy = m.real('cx'), m.real('cy')
    if kind == 'circle':
        r1, r2 = m.pos('r1'), m.pos('r2', hi=smax)
        m.assume(r1 < r2)
        reg = CircleAnnulusPixelRegion(PixCoord(cx, cy), r1, r2)
        fin = lambda X, Y: And(O.disk_in(X, Y, cx, cy, r2), O.disk_out(X, Y, cx, cy, r1))
        fout = lambda X, Y: Or(O.disk_out(X, Y, cx, cy, r2), O.disk_in(X, Y, cx, cy, r1))
    else:
        w1, w2, h1, h2 = m.pos('w1'), m.pos('w2', hi=smax), m.pos('h1'), m.pos('h2', hi=smax)
        m.assume(w1 < w2)
        m.assume(h1 < h2)
        ang = _angle(m, aunit)
        kw = {} if ang is None else {'angle': ang}
        c, s = (1.0, 0.0) if ang is None else symx.angle_cs(ang)
        cls = EllipseAnnulusPixelRegion if kind == 'ellipse' else RectangleAnnulusPixelRegion
        reg = cls(PixCoord(cx, cy), w1, w2, h1, h2, **kw)
        fi, fo = (O.ellipse_in, O.ellipse_out) if kind == 'ellipse' else (O.rect_in, O.rect_out)
        fin = lambda X, Y: And(fi(X, Y, cx, cy, w2, h2, c, s), fo(X, Y, cx, cy, w1, h1, c, s))
        fout = lambda X, Y: Or(fo(X, Y, cx, cy, w2, h2, c, s), fi(X, Y, cx, cy, w1, h1, c, s))
    mask = reg.to_mask(mode='center')
    box_checks(m, 'center', reg, mask)
    sample_bounds(m, 'center', mask, 1, fin, fout)
    for mode in ('subpixels', 'exact'):
        try:
            reg.to_mask(mode=mode, subpixels=2)
            m.require(f'annulus mask in {mode} mode raises NotImplementedError', False)
        except NotImplementedError:
            m.require(f'annulus mask in {mode} mode raises NotImplementedError', True)


def h_compound(op, m):
    import operator
    from regions import CirclePixelRegion, RectanglePixelRegion, PixCoord
    shims(m)
    _compound_shims(m)
    small = op.endswith('-callable')          # the quick-tier case: smaller operands, fewer box shapes
    cx, cy, r = m.real('cx'), m.real('cy'), m.pos('r', hi=0.4 if small else 0.7)
    dx, dy = cx + m.real('dx', lo=-0.3 if small else -1, hi=0.3 if small else 1), cy + m.real('dy', lo=-0.3 if small else -1, hi=0.3 if small else 1)
    w, h = m.pos('w', hi=0.5 if small else 1), m.pos('h', hi=0.5 if small else 1)
    a = CirclePixelRegion(PixCoord(cx, cy), r)
    b = RectanglePixelRegion(PixCoord(dx, dy), w, h)
    from regions import CompoundPixelRegion
    if op.endswith('-callable'):
        # the same operators given as other legitimate callables through the public constructor
        op = op.split('-')[0]
        fn = {'or': np.logical_or, 'and': (lambda p_, q_: np.logical_and(p_, q_)), 'xor': np.bitwise_xor}[op]
        comp = CompoundPixelRegion(a, b, fn)
    else:
        comp = {'or': a | b, 'and': a & b, 'xor': a ^ b}[op]
    f = {'or': Or, 'and': And, 'xor': chk.Xor}[op]
    mask = comp.to_mask(mode='center')
    box_checks(m, 'center', comp, mask)
    ina = lambda X, Y: O.disk_in(X, Y, cx, cy, r)
    outa = lambda X, Y: O.disk_out(X, Y, cx, cy, r)
    inb = lambda X, Y: O.rect_in(X, Y, dx, dy, w, h, 1.0, 0.0)
    outb = lambda X, Y: O.rect_out(X, Y, dx, dy, w, h, 1.0, 0.0)
    # off both boundaries the value is op(member_a, member_b)
    bb = mask.bbox
    data = cells_of(mask)
    ny, nx = data.shape
    for j in range(ny):
        for i in range(nx):
            X, Y = bb.ixmin + i, bb.iymin + j
            off = And(Or(ina(X, Y), outa(X, Y)), Or(inb(X, Y), outb(X, Y)))
            v = data[j, i]
            m.require(f'compound {op}: pixel[{j},{i}] = {op}(member_a, member_b) at the pixel centre',
                      Implies(off, Iff(v == 1, f(ina(X, Y), inb(X, Y)))))
            m.require(f'compound {op}: pixel[{j},{i}] is 0 or 1', Or(v == 0, v == 1))


def h_compound_callable_executed(m):
    """EXECUTED (no symbolic input): a compound built through the public constructor with other legitimate and / or / xor
    callables (numpy ufuncs, a lambda) has the mask and the membership of the corresponding Python operator"""
    import operator
    from regions import CirclePixelRegion, RectanglePixelRegion, CompoundPixelRegion, PixCoord
    a = CirclePixelRegion(PixCoord(3.2, 4.1), 2.3)
    b = RectanglePixelRegion(PixCoord(4.6, 3.4), 3.0, 2.0, angle=20 * u.deg)
    pts = PixCoord(np.array([3.0, 5.5, 4.2, 0.0, 4.4]), np.array([4.0, 3.3, 3.9, 0.0, 6.2]))
    for name, ref, others in (('and', operator.and_, (np.logical_and, np.bitwise_and, lambda p_, q_: p_ & q_)),
                              ('or', operator.or_, (np.logical_or, np.bitwise_or, lambda p_, q_: p_ | q_)),
                              ('xor', operator.xor, (np.logical_xor, np.bitwise_xor, lambda p_, q_: p_ ^ q_))):
        want = CompoundPixelRegion(a, b, ref)
        wm = want.to_mask()
        for k_, fn in enumerate(others):
            got = CompoundPixelRegion(a, b, fn)
            gm = got.to_mask()
            m.require(f'{name} given as callable #{k_}: same mask as the Python operator',
                      gm.bbox == wm.bbox and gm.data.shape == wm.data.shape and bool(np.all(gm.data == wm.data)))
            m.require(f'{name} given as callable #{k_}: same membership as the Python operator',
                      bool(np.all(np.asarray(got.contains(pts)) == np.asarray(want.contains(pts)))))


def h_modes(kind, m):
    """mode validation and unsupported shape/mode pairs"""
    from regions import (CirclePixelRegion, RectanglePixelRegion, PolygonPixelRegion, PointPixelRegion,
                         LinePixelRegion, TextPixelRegion, EllipsePixelRegion, PixCoord)
    shims(m)
    cx, cy = m.real('cx'), m.real('cy')
    dt = object if m.sym else float
    regs = {
        'circle': lambda: CirclePixelRegion(PixCoord(cx, cy), m.pos('r', hi=0.5)),
        'ellipse': lambda: EllipsePixelRegion(PixCoord(cx, cy), m.pos('w', hi=0.5), m.pos('h', hi=0.5)),
        'rectangle': lambda: RectanglePixelRegion(PixCoord(cx, cy), m.pos('w', hi=0.5), m.pos('h', hi=0.5)),
        'polygon': lambda: PolygonPixelRegion(PixCoord(np.array([cx, cx + 0.5, cx], dtype=dt),
                                                       np.array([cy, cy, cy + 0.5], dtype=dt))),
        'point': lambda: PointPixelRegion(PixCoord(cx, cy)),
        'line': lambda: LinePixelRegion(PixCoord(cx, cy), PixCoord(cx + 1, cy + 1)),
        'text': lambda: TextPixelRegion(PixCoord(cx, cy), 'x'),
    }
    reg = regs[kind]()

    def expect(exc, **kw):
        try:
            reg.to_mask(**kw)
            got = None
        except Exception as e:  # noqa
            got = type(e)
        m.require(f'{kind}: to_mask({kw}) -> {exc.__name__ if exc else "a mask"}', got is exc)

    if kind in ('point', 'line', 'text'):
        for mode in ('center', 'subpixels', 'exact'):
            expect(NotImplementedError, mode=mode)
        return
    expect(ValueError, mode='bogus')
    expect(ValueError, mode='subpixels', subpixels=0)
    expect(ValueError, mode='subpixels', subpixels=-2)
    expect(ValueError, mode='subpixels', subpixels=2.5)
    if kind in ('rectangle', 'polygon'):
        expect(NotImplementedError, mode='exact')
    # center mode ignores the subpixels argument: identical to subpixels=1
    m1 = reg.to_mask(mode='center', subpixels=2)
    m2 = reg.to_mask(mode='subpixels', subpixels=1)
    d1, d2 = cells_of(m1), cells_of(m2)
    m.require(f'{kind}: center mode equals subpixels=1 (shape)', d1.shape == d2.shape)
    if d1.shape == d2.shape:
        for idx in np.ndindex(*d1.shape):
            m.require(f'{kind}: center mode equals subpixels=1 at {list(idx)}', d1[idx] == d2[idx])


def h_ellipse_plumbing(mode, n, aunit, m):
    """ellipse masks: the kernel is called with the recentred pixel-edge grid of the bounding
    box, the semi-axes and the angle in radians (the per-pixel sampling property of the
    kernel itself is the kernel-lemma case)"""
    from regions import EllipsePixelRegion, PixCoord
    m.shim(BB, '_is_int', symx.sym_is_int)
    m.shim(BB, 'int', symx.sint)
    m.shim('regions.shapes.ellipse', 'float', symx.sfloat)
    rec = {}

    def recorder(xmin, xmax, ymin, ymax, nx, ny, rx, ry, theta, use_exact, subpixels):
        rec.update(xmin=xmin, xmax=xmax, ymin=ymin, ymax=ymax, nx=nx, ny=ny, rx=rx, ry=ry, theta=theta,
                   use_exact=use_exact, subpixels=subpixels)
        raise _Recorded()
    m.shim('regions.shapes.ellipse', 'elliptical_overlap_grid', recorder, both=True)
    cx, cy = m.real('cx'), m.real('cy')
    w, h = m.pos('w'), m.pos('h')
    ang = _angle(m, aunit)
    kw = {} if ang is None else {'angle': ang}
    reg = EllipsePixelRegion(PixCoord(cx, cy), w, h, **kw)
    bb = reg.bounding_box
    try:
        reg.to_mask(mode=mode, subpixels=n)
        m.require('kernel is called', False)
    except _Recorded:
        pass
    m.require('grid x-extent = pixel edges of the box, recentred on the ellipse',
              And(rec['xmin'] == bb.ixmin - 0.5 - cx, rec['xmax'] == bb.ixmax - 0.5 - cx))
    m.require('grid y-extent = pixel edges of the box, recentred on the ellipse',
              And(rec['ymin'] == bb.iymin - 0.5 - cy, rec['ymax'] == bb.iymax - 0.5 - cy))
    m.require('grid size = box shape', And(rec['nx'] == bb.ixmax - bb.ixmin, rec['ny'] == bb.iymax - bb.iymin))
    m.require('semi-axes are half the width / height', And(2 * rec['rx'] == w, 2 * rec['ry'] == h))
    ct, st = symx.angle_cs(rec['theta'] * u.rad) if not isinstance(rec['theta'], u.Quantity) else symx.angle_cs(rec['theta'])
    c0, s0 = (1.0, 0.0) if ang is None else symx.angle_cs(ang)
    m.require('angle is handed over in radians', And(ct == c0, st == s0) if m.sym else
              (abs(ct - c0) < 1e-12 and abs(st - s0) < 1e-12))
    m.require('sub-sampling mode and factor', rec['use_exact'] == 0 and rec['subpixels'] == (1 if mode == 'center' else n))


class _Recorded(Exception):
    pass


def h_polygon_plumbing(variant, m):
    """polygon masks: the kernel receives the pixel-edge grid of the bounding box and the
    CURRENT vertices (also after re-assignment / with a constructor origin)"""
    from regions import PolygonPixelRegion, PixCoord
    m.shim(BB, '_is_int', symx.sym_is_int)
    m.shim(BB, 'int', symx.sint)
    m.shim('regions.shapes.polygon', 'float', symx.sfloat)
    if m.sym:
        m.shim('regions.shapes.polygon', 'np', kernels.NPFacade())
    rec = {}

    def recorder(xmin, xmax, ymin, ymax, nx, ny, vx, vy, use_exact, subpixels):
        rec.update(xmin=xmin, xmax=xmax, ymin=ymin, ymax=ymax, nx=nx, ny=ny, vx=vx, vy=vy, use_exact=use_exact,
                   subpixels=subpixels)
        raise _Recorded()
    m.shim('regions.shapes.polygon', 'polygonal_overlap_grid', recorder, both=True)
    dt = object if m.sym else float
    cx, cy = m.real('vx0'), m.real('vy0')
    nv = 5 if variant == 'five-vertices' else 3
    if nv == 5:
        # a fixed quadrilateral at a symbolic position plus a fifth vertex anywhere in a small square next to the first one
        # (keeps the number of bounding-box shapes small)
        e, f = m.real('ex4', lo=0, hi=0.125), m.real('ey4', lo=0, hi=0.125)
        vx = [cx, cx + 1.5, cx + 1.25, cx + 0.25, cx + e]
        vy = [cy, cy + 0.25, cy + 1.5, cy + 1.25, cy + f]
    else:
        vx = [cx] + [cx + m.real(f'ex{i}') for i in range(1, nv)]
        vy = [cy] + [cy + m.real(f'ey{i}') for i in range(1, nv)]
    if variant in ('plain', 'five-vertices'):
        reg = PolygonPixelRegion(PixCoord(np.array(vx, dtype=dt), np.array(vy, dtype=dt)))
    elif variant == 'origin':
        ox, oy = m.real('ox'), m.real('oy')
        reg = PolygonPixelRegion(PixCoord(np.array([x - ox for x in vx], dtype=dt), np.array([y - oy for y in vy], dtype=dt)),
                                 origin=PixCoord(ox, oy))
    else:
        ax, ay = m.real('ax'), m.real('ay')
        reg = PolygonPixelRegion(PixCoord(np.array([ax, ax + 1, ax], dtype=dt), np.array([ay, ay, ay + 2], dtype=dt)))
        reg.bounding_box
        reg.vertices = PixCoord(np.array(vx, dtype=dt), np.array(vy, dtype=dt))
    bb = reg.bounding_box
    try:
        reg.to_mask(mode='subpixels', subpixels=3)
        m.require('kernel is called', False)
    except _Recorded:
        pass
    m.require('grid extent = pixel edges of the bounding box (absolute coordinates)',
              And(rec['xmin'] == bb.ixmin - 0.5, rec['xmax'] == bb.ixmax - 0.5,
                  rec['ymin'] == bb.iymin - 0.5, rec['ymax'] == bb.iymax - 0.5))
    m.require('grid size = box shape', And(rec['nx'] == bb.ixmax - bb.ixmin, rec['ny'] == bb.iymax - bb.iymin))
    kvx = list(np.asarray(rec['vx'], dtype=object).reshape(-1))
    kvy = list(np.asarray(rec['vy'], dtype=object).reshape(-1))
    m.require('kernel receives the current vertices (all of them, in order)', len(kvx) == nv and len(kvy) == nv and
              And(*[And(kvx[i] == vx[i], kvy[i] == vy[i]) for i in range(min(nv, len(kvx)))]))
    m.require('sub-sampling mode and factor', rec['use_exact'] == 0 and rec['subpixels'] == 3)


def h_compound_modes(m):
    """compound / annulus masks: a component without a mask (point) makes the compound mask
    raise NotImplementedError; non-centre modes raise NotImplementedError; the include flag
    does not enter the mask"""
    from regions import CirclePixelRegion, PointPixelRegion, PixCoord
    shims(m)
    _compound_shims(m)
    cx, cy = m.real('cx'), m.real('cy')
    a = CirclePixelRegion(PixCoord(cx, cy), m.pos('r', hi=0.5))
    p = PointPixelRegion(PixCoord(cx, cy))
    for comp in (a | p, p & a):
        try:
            comp.to_mask(mode='center')
            m.require('compound with a point component: to_mask raises NotImplementedError', False)
        except NotImplementedError:
            m.require('compound with a point component: to_mask raises NotImplementedError', True)
    for mode in ('subpixels', 'exact'):
        try:
            (a | a).to_mask(mode=mode, subpixels=2)
            m.require(f'compound mask in {mode} mode raises NotImplementedError', False)
        except NotImplementedError:
            m.require(f'compound mask in {mode} mode raises NotImplementedError', True)


def h_ellipse_kernel(n, m):
    """kernel lemma (ellipse, sub-sampling): on one pixel the sub-pixel routine counts exactly
    the n x n sample centres that are strictly inside the origin-centred rotated ellipse"""
    from vf.pyxsym import Interp, ISum
    if not m.sym:
        # replay: the routine is interpreted concretely from the current .pyx source and compared with the count of sample centres
        x0, y0, sx, sy, rx, ry = m.real('x0'), m.real('y0'), m.pos('sx'), m.pos('sy'), m.pos('rx'), m.pos('ry')
        th = m.angle('theta', 'rad')
        tv = float(th.to_value(u.rad))
        c, s = math.cos(tv), math.sin(tv)
        I = Interp('elliptical_overlap', symbolic=False)
        v = I.call('elliptical_overlap_single_subpixel', [x0, y0, x0 + sx, y0 + sy, rx, ry, tv, n])
        inside = outside = 0
        for a in range(n):
            for b in range(n):
                X, Y = x0 + sx * ((a + 0.5) / n), y0 + sy * ((b + 0.5) / n)
                inside += bool(O.ellipse_in(X, Y, 0, 0, 2 * rx, 2 * ry, c, s))
                outside += bool(O.ellipse_out(X, Y, 0, 0, 2 * rx, 2 * ry, c, s))
        m.require('sample strictly inside => counted / strictly outside => not counted (replay: totals)',
                  inside / (n * n) - 1e-12 <= v <= (n * n - outside) / (n * n) + 1e-12)
        return
    x0, y0 = m.real('x0'), m.real('y0')
    sx, sy = m.pos('sx'), m.pos('sy')
    rx, ry = m.pos('rx'), m.pos('ry')
    th = m.angle('theta', 'rad')
    c, s = symx.angle_cs(th)
    I = Interp('elliptical_overlap', hooks=kernels._trig_hooks())
    tv = th.to_value(u.rad)
    tv = tv[()] if isinstance(tv, np.ndarray) else tv
    v = I.call('elliptical_overlap_single_subpixel',
               [x0.t, y0.t, (x0 + sx).t, (y0 + sy).t, rx.t, ry.t, tv.t, n])
    m.require('result is an indicator sum of n*n terms of weight 1/n^2',
              isinstance(v, ISum) and len(v.items) == n * n and v.const == 0)
    from fractions import Fraction
    k = 0
    for a in range(n):
        for b in range(n):
            X = x0 + sx * _frac(m, 2 * a + 1, 2 * n)
            Y = y0 + sy * _frac(m, 2 * b + 1, 2 * n)
            cond, coef = v.items[k]
            k += 1
            m.require(f'sample ({a},{b}) has weight 1/n^2', Fraction(coef) == Fraction(1, n * n))
            m.require(f'sample ({a},{b}) strictly inside => counted',
                      Implies(O.ellipse_in(X, Y, 0, 0, 2 * rx, 2 * ry, c, s), symx.SymBool(cond)))
            m.require(f'sample ({a},{b}) strictly outside => not counted',
                      Implies(O.ellipse_out(X, Y, 0, 0, 2 * rx, 2 * ry, c, s), Not(symx.SymBool(cond))))
    for (g, f, what) in I.safety:
        m.require('kernel safety: ' + what, symx.SymBool(z3.Implies(g, f)))


def harnesses(tier):
    P = functools.partial
    q = tier == 'quick'
    hs = []
    hs.append(('circle/center/r<1', P(h_circle, 'center', 1, 1)))
    hs.append(('circle/subpixels1/r<1', P(h_circle, 'subpixels', 1, 1)))
    hs.append(('circle/subpixels2/r<1', P(h_circle, 'subpixels', 2, 1)))
    hs.append(('circle/history/returned-mask-overwritten', h_circle_history))
    for au in (['deg', 'rad'] if q else ['default', 'deg', 'rad']):
        if q and au == 'rad':
            for mode, n in (('center', 5), ('subpixels', 3)):
                hs.append((f'ellipse/plumbing/{mode}/{au}', P(h_ellipse_plumbing, mode, n, au)))
            continue
        hs.append((f'rectangle/center/{au}', P(h_rect, 'center', 1, au, 1.4)))
        hs.append((f'rectangle/subpixels2/{au}', P(h_rect, 'subpixels', 2, au, 1.4)))
        for mode, n in (('center', 5), ('subpixels', 3)):
            hs.append((f'ellipse/plumbing/{mode}/{au}', P(h_ellipse_plumbing, mode, n, au)))
    for n in ([1, 2] if q else [1, 2, 3, 4]):
        hs.append((f'ellipse/kernel-lemma/n={n}', P(h_ellipse_kernel, n)))
    hs.append(('regular-polygon/plumbing', h_regpoly_plumbing))
    for v in ('plain', 'origin', 'reassign', 'five-vertices'):
        hs.append((f'polygon/plumbing/{v}', P(h_polygon_plumbing, v)))
    hs.append(('modes/compound', h_compound_modes))
    hs.append(('compound/callable-operators (executed)', h_compound_callable_executed))
    for kind in ('circle', 'ellipse', 'rectangle', 'polygon', 'point', 'line', 'text'):
        hs.append((f'modes/{kind}', P(h_modes, kind)))
    if not q:
        hs.append(('annulus-circle/r<0.5', P(h_annulus, 'circle', 'deg', 0.5)))
        hs.append(('polygon/center/triangle', P(h_polygon, 'center', 1, 1)))
        hs.append(('polygon/subpixels2/triangle', P(h_polygon, 'subpixels', 2, 1)))
        for op in ('or', 'and', 'xor'):
            hs.append((f'compound/{op}', P(h_compound, op)))
        hs.append(('circle/center/r<2', P(h_circle, 'center', 1, 2)))
        hs.append(('rectangle/subpixels3/deg', P(h_rect, 'subpixels', 3, 'deg', 1.4)))
        hs.append(('rectangle/subpixels4/deg', P(h_rect, 'subpixels', 4, 'deg', 1.4)))
    return hs


SHARDS = {'circle/subpixels2/r<1': 6, 'circle/subpixels3/r<0.5': 16, 'circle/center/r<2': 8,
          'rectangle/subpixels2/deg': 4, 'polygon/center/triangle': 8, 'polygon/subpixels2/triangle': 16,
          'annulus-circle/r<0.5': 4, 'annulus-circle/r<1': 12, 'annulus-rectangle/deg': 8, 'compound/or': 8, 'compound/and': 8, 'compound/xor': 8,
          'rectangle/subpixels3/deg': 8, 'rectangle/subpixels4/deg': 12}


def cases(tier, seed):
    out = []
    for name, h in harnesses(tier):
        out += chk.sharded('C02', name, h, SHARDS.get(name, 1), max_paths=3000)
    out.append(('translation-validation/kernels',
                functools.partial(chk.tv_case, 'C02', ('circular', 'elliptical', 'rectangular', 'polygonal', 'pnpoly'), seed)))
    return out


META = {
    'functions_encoded': [
        'to_mask of Circle/Ellipse/Rectangle/Polygon pixel regions (real Python), PixelRegion._validate_mode',
        'regions.core.mask.RegionMask.__init__', 'regions.core.bounding_box.RegionBoundingBox.from_float/shape',
        'regions.shapes.annulus.AnnulusPixelRegion.to_mask -> regions.core.compound.CompoundPixelRegion.to_mask',
        'regions/_geometry/circular_overlap.pyx: circular_overlap_grid, circular_overlap_single_subpixel',
        'regions/_geometry/rectangular_overlap.pyx: rectangular_overlap_grid, rectangular_overlap_single_subpixel',
        'regions/_geometry/polygonal_overlap.pyx + pnpoly.pyx: polygonal_overlap_grid, ..._single_subpixel, point_in_polygon',
        'regions/_geometry/elliptical_overlap.pyx: elliptical_overlap_single_subpixel (kernel lemma)'],
    'bounds': {
        'quick': {'box': '<= 3x3 pixels (circle r <= 1, rectangle sides <= 1.4, triangle spread < 1); position on the '
                         'grid unbounded (symbolic integer box corners)',
                  'subpixels': {'circle': [1, 2], 'rectangle': [1, 2], 'ellipse kernel lemma': [1, 2]},
                  'annulus / compound / polygon masks': 'thorough tier only', 'angle_units': ['deg']},
        'thorough': {'box': '<= 3x3 (<= 5x5 for circle centre mode with r <= 2)',
                     'subpixels': {'circle': '1, 2 (3 sub-samples per axis: solver timeouts on single samples, outside the claim)', 'rectangle': [1, 2, 3, 4], 'triangle': [1, 2],
                                   'ellipse kernel lemma': [1, 2, 3, 4]},
                     'annulus': 'circular annulus (rectangular annulus masks exceed the per-case budget: see C08 thorough for annulus masks)', 'compound': 'circle (op) rectangle, or/and/xor, depth 1',
                     'angle_units': ['default', 'deg', 'rad']}},
    'outside_claim': [
        'subpixels 5..12 (same loop body, larger trip count) and boxes larger than the bound',
        'ELLIPSE grid masks end to end: the obligation "sample inside => the kernel\'s coarse skip test keeps the pixel" '
        'needs ellipse-in-major-axis-disk reasoning on which z3 returns unknown (> 120 s); claimed instead: the plumbing '
        '(exact arguments handed to the kernel) and the per-pixel sampling lemma of the kernel routine',
        'elliptical annulus masks (same reason); polygons with more than 3 vertices in mask checks',
        'rounding next to the boundary (reals model)'],
    'stubs': ['compiled kernels -> pyxsym interpretation of the .pyx sources (translation-validated in this run)',
              'regions.core.bounding_box._is_int/int, shape modules float: keep integral / symbolic values',
              'regions.core.compound.np -> facade (dtype=int conversion of 0/1 masks as symbolic bits)',
              'astropy.units.Quantity.__new__: object dtype for symbolic payloads'],
    'assumptions': ['floats are interpreted as the real numbers they denote',
                    'box indices from floor/ceil are integers: obligations are first decided with integers relaxed to '
                    'reals (sound), re-decided with genuine integers after linear abstraction when the relaxation has a model',
                    'the compiled extensions agree with the .pyx sources (checked on seeded vectors in this run)'],
}
