"""C10 DS9 text is read according to the DS9 region-file conventions.

Grammar-directed generation with attached semantics: every program (a short DS9 file) is
produced by a generator that also produces what the file means per the DS9 region-file
documentation (the reference semantics below is written from the documentation, not from the
reader).  Numeric magnitudes of pixel coordinates and of all sizes are symbolic (decimal tokens),
so each program stands for all magnitudes; notation, shape, frame, separators, case, sign,
properties and the parser state (frame / global properties / unsupported items before the line)
are enumerated."""
import functools
import itertools
import warnings

import numpy as np
import z3
import astropy.units as u

from vf import chk, symx, kernels
from vf.chk import And, Or, Not, Implies, Iff, If

SKY_FRAMES = {'fk5': 'fk5', 'icrs': 'icrs', 'galactic': 'galactic', 'ecliptic': 'barycentricmeanecliptic', 'fk4': 'fk4',
              'j2000': 'fk5', 'b1950': 'fk4'}
UNSUPPORTED_FRAMES = ['physical', 'detector', 'wcsa', 'linear', 'amplifier', 'tile', 'wcs', 'wcsq', 'WCSB', 'PHYSICAL']
UNSUPPORTED_SHAPES = ['vector(1,2,3,4)', 'ruler(1,2,3,4)', 'panda(1,2,0,90,1,3,5,1)', 'compass(1,2,3)']

# concrete sky positions in several notations: (lon text, lat text, lon deg for equatorial, lon deg otherwise, lat deg)
SKY_POS = [
    ('150.5', '-20.25', 150.5, 150.5, -20.25),
    ('150.5d', '-20.25d', 150.5, 150.5, -20.25),
    ('1.5r', '-0.25r', np.rad2deg(1.5), np.rad2deg(1.5), np.rad2deg(-0.25)),
    ('10:02:00', '-20:15:00', 150.5, 10 + 2 / 60, -20.25),        # a:b:c longitude: hours only for equatorial frames
    ('10h02m00s', '-20d15m00s', 150.5, 150.5, -20.25),
    ('+150.5', '+20.25', 150.5, 150.5, 20.25),
    ('0:30:00', '-0:30:00', 7.5, 0.5, -0.5),                      # sign carried by "-0"
    ('00h30m00s', '-00d00m36s', 7.5, 7.5, -0.01),
    ('23:59:59.5', '+0:00:01', 359.9979166666667, 23 + 59 / 60 + 59.5 / 3600, 1 / 3600),
]
SIZE_NOTATIONS = {'sky': [('', 1.0), ('"', 1 / 3600), ("'", 1 / 60), ('d', 1.0), ('r', 180 / np.pi)],
                  'pixel': [('', 1.0), ('i', 1.0)]}
ANGLES = [('30', 30.0), ('-45', -45.0), ('200d', 200.0), ('0.5r', np.rad2deg(0.5)), ('0', 0.0)]


def _shims(m):
    if m.sym:
        m.shim('regions.io.ds9.read', 'float', _float)
        m.shim('regions.core.pixcoord', 'np', kernels.NPFacade())


def abs_(v, sign):
    return -v if sign == '-' else v


def _float(x):
    r = symx.token_lookup(x)
    return r if r is not None else float(x)


class Gen:
    """builds one region line + its meaning"""

    def __init__(self, m, idx):
        self.m, self.idx, self.k = m, idx, 0

    def num(self, name, positive=False):
        """a symbolic magnitude and the numeral that denotes it exactly (no rounding is modelled when reading);
        signed values are written as an explicit sign followed by the numeral of the magnitude"""
        self.k += 1
        if positive:
            v = self.m.pos(f'{name}{self.k}')
            sign = ['', '+'][(self.idx + self.k) % 5 == 0]
        else:
            mag = self.m.real(f'{name}{self.k}', lo=0)
            sign = ['', '-', '+'][(self.idx + self.k) % 3]
            v = -mag if sign == '-' else mag
        if self.m.sym:
            c = symx.ctx()
            tok = f'{7000000 + int(c.name("tok").split("!")[1])}.5'
            c.tokens[tok] = abs_(v, sign)
            return sign + tok, v
        return sign + repr(float(abs(v))), (-1 if sign == '-' else 1) * float(repr(float(abs(v))))

    def pick(self, seq, salt=0):
        return seq[(self.idx // (1 + salt) + salt) % len(seq)]


def gen_line(g, frame, shape, variant):
    """returns (param texts, expected list of (cls, params dict)) ; frame 'image' or a sky frame keyword"""
    pixel = frame == 'image'
    kind = 'pixel' if pixel else 'sky'
    fr_name = None if pixel else SKY_FRAMES[frame]
    equatorial = fr_name in ('fk5', 'fk4', 'icrs')

    def pos(i=0):
        if pixel:
            tx, vx = g.num('x')
            ty, vy = g.num('y')
            sfx = g.pick(['', 'i'], 3)
            return [tx + sfx, ty + sfx], ('pix', vx - 1, vy - 1)
        lt, bt, lon_eq, lon_other, lat = SKY_POS[(g.idx + 4 * variant + i) % len(SKY_POS)]
        return [lt, bt], ('sky', lon_eq if equatorial else lon_other, lat)

    def size():
        t, v = g.num('s', positive=True)
        sfx, scale = g.pick(SIZE_NOTATIONS[kind], 5 + g.k)
        return t + sfx, (v if pixel else v * scale)

    def angle():
        t, v = ANGLES[(g.idx // 2 + variant + g.k) % len(ANGLES)]
        return t, v

    P = 'Pixel' if pixel else 'Sky'
    if shape == 'circle':
        p, c = pos()
        st, sv = size()
        return p + [st], [(f'Circle{P}Region', {'center': c, 'radius': sv})]
    if shape in ('ellipse', 'box'):
        p, c = pos()
        (at, av), (bt, bv) = size(), size()
        with_angle = variant % 3 != 0
        cls = f'Ellipse{P}Region' if shape == 'ellipse' else f'Rectangle{P}Region'
        f = 2 if shape == 'ellipse' else 1            # ellipse radii are semi-axes
        exp = {'center': c, 'width': f * av, 'height': f * bv, 'angle': 0.0}
        texts = p + [at, bt]
        if with_angle:
            gt, gv = angle()
            texts.append(gt)
            exp['angle'] = gv
        return texts, [(cls, exp)]
    if shape == 'polygon':
        pts = [pos(i) for i in range(3)]
        texts = [t for p, _ in pts for t in p]
        return texts, [(f'Polygon{P}Region', {'vertices': [c for _, c in pts]})]
    if shape == 'line':
        (p1, c1), (p2, c2) = pos(0), pos(1)
        return p1 + p2, [(f'Line{P}Region', {'start': c1, 'end': c2})]
    if shape == 'point':
        p, c = pos()
        return p, [(f'Point{P}Region', {'center': c})]
    if shape == 'text':
        p, c = pos()
        return p, [(f'Text{P}Region', {'center': c})]
    if shape == 'annulus':
        p, c = pos()
        n = 2 + variant % 2                     # 2 or 3 radii
        radii = []
        base = None
        texts = list(p)
        for i in range(n):
            t, v = size()
            base = v if base is None else base + v          # increasing radii: r1, r1+d, ...
            radii.append(base)
            texts.append(None)
        # the text must denote the cumulative radii: generate them as separate tokens is not possible, so use
        # independent magnitudes and require the ordering as an assumption instead
        texts = list(p)
        radii = []
        for i in range(n):
            t, v = size()
            texts.append(t)
            radii.append(v)
        for a, b in zip(radii, radii[1:]):
            g.m.assume(a < b)
        return texts, [(f'CircleAnnulus{P}Region', {'center': c, 'inner_radius': a, 'outer_radius': b}) for a, b in zip(radii, radii[1:])]
    if shape in ('ellipse-annulus', 'box-annulus', 'ellipse-annulus3', 'box-annulus3'):
        p, c = pos()
        npairs = 3 if shape.endswith('3') else 2
        pairs = [(size(), size()) for _ in range(npairs)]
        for ((_, a_lo), (_, b_lo)), ((_, a_hi), (_, b_hi)) in zip(pairs, pairs[1:]):
            g.m.assume(a_lo < a_hi)
            g.m.assume(b_lo < b_hi)
        gt, gv = angle()
        f = 2 if shape.startswith('ellipse') else 1
        cls = f'EllipseAnnulus{P}Region' if shape.startswith('ellipse') else f'RectangleAnnulus{P}Region'
        texts = p + [t for ((at, _), (bt, _)) in pairs for t in (at, bt)] + [gt]
        exp = [(cls, {'center': c, 'inner_width': f * lo[0][1], 'inner_height': f * lo[1][1],
                      'outer_width': f * hi[0][1], 'outer_height': f * hi[1][1], 'angle': gv}) for lo, hi in zip(pairs, pairs[1:])]
        return texts, exp
    raise ValueError(shape)


SHAPE_KEYWORD = {'circle': 'circle', 'ellipse': 'ellipse', 'box': 'box', 'polygon': 'polygon', 'line': 'line', 'point': 'point',
                 'text': 'text', 'annulus': 'annulus', 'ellipse-annulus': 'ellipse', 'box-annulus': 'box',
                 'ellipse-annulus3': 'ellipse', 'box-annulus3': 'box'}


def render(shape, texts, style, sign, props, casing):
    kw = SHAPE_KEYWORD[shape]
    kw = kw.upper() if casing == 'upper' else (kw.capitalize() if casing == 'cap' else kw)
    if style == 'comma':
        body = f'({",".join(texts)})'
    elif style == 'space':
        body = f'({" ".join(texts)})'
    elif style == 'noparen':
        body = ' ' + ' '.join(texts)
    else:
        body = '( ' + ' , '.join(texts) + ' )'
    line = f'{sign}{kw}{body}'
    if props:
        line += ' # ' + ' '.join(props)
    return line


PROPS = [
    ([], {}),
    (['color=red'], {'color': 'red'}),
    (['text={a b;c}', 'color=blue'], {'text': 'a b;c', 'color': 'blue'}),
    (['text="q # r; z"'], {'text': 'q # r; z'}),
    (["text='s=t;u'", 'tag={g1}', 'tag={g 2}'], {'text': 's=t;u', 'tag': ['g1', 'g 2']}),
    (['include=0'], {'include': 0}),
    (['text={r=30"}', 'color=red'], {'text': 'r=30"', 'color': 'red'}),                 # the text ends / begins with another delimiter character
    (['text={"M51" nucleus}'], {'text': '"M51" nucleus'}),
    (["text=\"radius 5'\""], {'text': "radius 5'"}),
    (['width=3', 'dash=1'], {'width': 3}),
]


def h_program(idx, m):
    """[frame line] [unsupported items] [global line] <test line> [; second region] <probe line>"""
    from regions import Regions
    _shims(m)
    g = Gen(m, idx)
    frames = ['image'] + list(SKY_FRAMES)
    shapes = list(SHAPE_KEYWORD)
    frame = frames[idx % len(frames)]
    shape = shapes[(idx // len(frames)) % len(shapes)]
    variant = idx // (len(frames) * len(shapes))
    style = ['comma', 'space', 'noparen', 'spaced-comma'][(idx + variant) % 4]
    sign = ['', '+', '-'][(idx // 3 + variant) % 3]
    casing = ['lower', 'upper', 'cap'][(idx // 5) % 3]
    props, pmeaning = PROPS[(idx + 2 * variant) % len(PROPS)]
    if shape == 'text':
        props, pmeaning = (['text={some label}'] + [p for p in props if not p.startswith('text')],
                           {**{k: v for k, v in pmeaning.items()}, 'text': 'some label'})
    glob = [None, 'global color=green width=2', 'global color=white include=1 select=0'][(idx // 7) % 3]
    gmeaning = {None: {}, 'global color=green width=2': {'color': 'green', 'width': 2},
                'global color=white include=1 select=0': {'color': 'white', 'select': 0}}[glob]
    noise = (idx // 11) % 4
    lines = ['# Region file format: DS9 version 4.1']
    fr_kw = frame.upper() if casing == 'upper' else frame
    pre_frame = (idx // 13) % 3          # 0: plain, 1: an unsupported frame first then the real one, 2: frame on the region line with ';'
    if pre_frame == 1:
        lines.append(UNSUPPORTED_FRAMES[idx % len(UNSUPPORTED_FRAMES)])
    if glob:
        lines.append(glob)
    if noise == 1:
        lines.append('# a comment line; with a semicolon')
        lines.append(['# circle(300,300,25)', '#box(50,50,10,10,0) # color=red', '# ellipse 1 2 3 4 5'][idx % 3])       # commented-out regions stay comments
    texts, expected = gen_line(g, frame, shape, variant)
    test = render(shape, texts, style, sign, props, casing)
    if pre_frame == 2:
        lines.append(f'{fr_kw}; {test}')
    else:
        lines.append(fr_kw)
        if noise == 2:
            lines.append(UNSUPPORTED_SHAPES[idx % len(UNSUPPORTED_SHAPES)])
        lines.append(test)
    if noise == 3:
        lines.append('')
        lines.append(UNSUPPORTED_SHAPES[(idx + 1) % len(UNSUPPORTED_SHAPES)] + ' # color=cyan')
    if (idx // 4) % 3 == 1:
        # an unsupported frame after a supported one: the regions that follow it are not produced until a supported
        # frame is named again
        lines.append(UNSUPPORTED_FRAMES[(idx // 12) % len(UNSUPPORTED_FRAMES)])
        lines.append(['circle(1,2,3)', 'box(4,5,6,7,0) # color=red', '-ellipse(1,2,3,4,5)'][idx % 3])
        lines.append(fr_kw)
    # probe: a plain circle on the next line reveals the state that survives the test line
    ptexts, pexp = gen_line(Gen(m, idx + 1000), frame, 'circle', variant + 1)
    lines.append(render('circle', ptexts, 'comma', '', [], 'lower'))
    text = '\n'.join(lines) + '\n'
    with warnings.catch_warnings(record=True) as wlist:
        warnings.simplefilter('always')
        regs = Regions.parse(text, format='ds9')
    n_unsupported = sum(1 for ln in lines for kw in [ln.split('(')[0].split(';')[0].strip().lower()]
                        if kw in [f.lower() for f in UNSUPPORTED_FRAMES] or kw in ('vector', 'ruler', 'panda', 'compass'))
    n_warned = sum(1 for w in wlist if 'not supported' in str(w.message))
    m.require('every unsupported frame or shape is announced by a warning', n_warned >= n_unsupported)
    n_frameless = 1 if (idx // 4) % 3 == 1 else 0
    m.require('a region line without an active frame is announced by a warning',
              sum(1 for w in wlist if 'frame was not found' in str(w.message)) == n_frameless)
    want = []
    inc_test = 0 if sign == '-' else 1
    if 'include' in pmeaning:
        inc_test = pmeaning['include']
    for cls, params in expected:
        want.append((cls, params, inc_test, {**gmeaning, **{k: v for k, v in pmeaning.items() if k != 'include'}}))
    for cls, params in pexp:
        want.append((cls, params, 1, dict(gmeaning)))
    m.note(text[:200])
    m.require('number of regions (multi-radius lines expand into consecutive annuli; unsupported items are skipped)', len(regs) == len(want))
    if len(regs) != len(want):
        return
    for j, (r, (cls, params, inc, meta)) in enumerate(zip(regs, want)):
        tag = f'region {j} ({cls})'
        m.require(f'{tag}: class', type(r).__name__ == cls)
        if type(r).__name__ != cls:
            continue
        _check_params(m, tag, r, params, None if frame == 'image' else SKY_FRAMES[frame])
        m.require(f'{tag}: include / exclude sense', int(bool(r.meta.get('include', 1))) == inc)
        if 'text' in meta and not cls.startswith('Text'):
            m.require(f'{tag}: text kept verbatim', r.meta.get('text') == meta['text'])
        if cls.startswith('Text'):
            m.require(f'{tag}: text kept verbatim', r.text == meta.get('text', ''))
        if 'tag' in meta:
            m.require(f'{tag}: tags', r.meta.get('tag') == meta['tag'])
        if 'color' in meta:
            col = r.visual.get('color', r.visual.get('edgecolor', r.visual.get('facecolor')))
            m.require(f'{tag}: colour (per-region properties override global ones)', col == meta['color'])
        if 'select' in meta:
            m.require(f'{tag}: global flags apply', r.meta.get('select') == meta['select'])
        if 'width' in meta:
            m.require(f'{tag}: line width', r.visual.get('linewidth', r.visual.get('markeredgewidth')) == meta['width'])


def _check_params(m, tag, r, params, frame):
    from regions import PixCoord
    for name, exp in params.items():
        got = getattr(r, name)
        if isinstance(exp, tuple) and exp[0] == 'pix':
            m.require(f'{tag}: {name} is shifted from 1-based to 0-based', And(chk.Eq(got.x, exp[1]), chk.Eq(got.y, exp[2])))
        elif isinstance(exp, tuple) and exp[0] == 'sky':
            m.require(f'{tag}: {name} frame', got.frame.name == frame)
            sph = got.spherical
            m.require(f'{tag}: {name} longitude / latitude per the notation (a:b:c is hours only in equatorial frames)',
                      abs(float(sph.lon.deg) - exp[1] % 360) < 1e-8 and abs(float(sph.lat.deg) - exp[2]) < 1e-8)
        elif isinstance(exp, list):
            if exp[0][0] == 'pix':
                xs, ys = np.asarray(got.x, dtype=object), np.asarray(got.y, dtype=object)
                m.require(f'{tag}: {name} count', len(xs) == len(exp))
                for k_, e in enumerate(exp):
                    m.require(f'{tag}: vertex {k_}', And(chk.Eq(xs[k_], e[1]), chk.Eq(ys[k_], e[2])))
            else:
                m.require(f'{tag}: {name} frame', got.frame.name == frame)
                lon, lat = np.atleast_1d(got.spherical.lon.deg), np.atleast_1d(got.spherical.lat.deg)
                m.require(f'{tag}: {name} values', len(lon) == len(exp) and all(
                    abs(float(a) - e[1] % 360) < 1e-8 and abs(float(b) - e[2]) < 1e-8 for a, b, e in zip(lon, lat, exp)))
        elif name == 'angle':
            gv = got.to_value(u.deg)
            gv = gv[()] if isinstance(gv, np.ndarray) else gv
            m.require(f'{tag}: angle in degrees unless suffixed', abs(float(gv) - exp) < 1e-9)
        else:
            if isinstance(got, u.Quantity):
                gv = got.to_value(u.deg)
                gv = gv[()] if isinstance(gv, np.ndarray) else gv
                m.require(f'{tag}: {name} (sizes are not shifted; bare numbers are degrees; suffixes honoured; ellipse radii are semi-axes)',
                          chk.Eq(gv, exp))
            else:
                m.require(f'{tag}: {name} (sizes are not shifted; ellipse radii are semi-axes)', chk.Eq(got, exp))


SPECIAL = [
    # (text, expectation) literal programs for state rules that the generator above does not reach
    ('circle(1,2,3)\n', lambda rs: len(rs) == 0),                                                        # no frame -> nothing
    ('image\ncircle(1,2,3)\nphysical\ncircle(4,5,6)\nimage\ncircle(7,8,9)\n', lambda rs: [float(r.center.x) for r in rs] == [0.0, 6.0]),
    ('fk5\ncircle(10,20,1")\ngalactic\ncircle(10,20,1")\n', lambda rs: [r.center.frame.name for r in rs] == ['fk5', 'galactic']),
    ('image; circle(1,2,3); -box(4,5,6,7,0) # color=red\n', lambda rs: [type(r).__name__ for r in rs] == ['CirclePixelRegion', 'RectanglePixelRegion']
     and rs[1].meta.get('include') == 0 and rs[0].meta.get('include') == 1),
    ('image\ncircle(1,2,3) # text={x;y} color=red\ncircle(4,5,6)\n', lambda rs: len(rs) == 2 and rs[0].meta.get('text') == 'x;y' and 'text' not in rs[1].meta),
    ('global color=blue\nimage\ncircle(1,2,3) # color=red\ncircle(4,5,6)\n',
     lambda rs: rs[0].visual.get('facecolor') == 'red' and rs[1].visual.get('facecolor') == 'blue'),
    ('image\n-circle(1,2,3)\ncircle(4,5,6)\n+circle(7,8,9)\n', lambda rs: [r.meta.get('include') for r in rs] == [0, 1, 1]),
    ('j2000\ncircle(10:00:00,+20:00:00,30")\nb1950\ncircle(10:00:00,+20:00:00,30")\n',
     lambda rs: [r.center.frame.name for r in rs] == ['fk5', 'fk4'] and all(abs(r.center.spherical.lon.deg - 150) < 1e-8 for r in rs)),
    ('galactic\ncircle(10:00:00,+20:00:00,30")\necliptic\ncircle(10:00:00,+20:00:00,30")\n',
     lambda rs: all(abs(r.center.spherical.lon.deg - 10) < 1e-8 for r in rs)),
    ('image\n# text(5,6) text={a label}\n', lambda rs: len(rs) == 1 and type(rs[0]).__name__ == 'TextPixelRegion' and rs[0].text == 'a label'),
    ('image\ncomposite(5,6,0) || composite=1 color=cyan\ncircle(1,2,3) ||\ncircle(4,5,6)\ncircle(7,8,9)\n',
     lambda rs: len(rs) == 3 and rs[0].visual.get('facecolor') == 'cyan' and rs[1].visual.get('facecolor') == 'cyan'
     and rs[2].visual.get('facecolor') != 'cyan'),
    ('wcs; circle(1,2,3)\nimage; circle(4,5,6)\n', lambda rs: len(rs) == 1 and float(rs[0].center.x) == 3.0),
    # the kind of frame (pixel / celestial) follows every frame change, in both directions
    ('image\ncircle(11,21,5)\nfk5\ncircle(202.5,47.2,0.01)\nimage\ncircle(4,5,6)\ngalactic;circle(10,20,30")\n',
     lambda rs: [type(r).__name__ for r in rs] == ['CirclePixelRegion', 'CircleSkyRegion', 'CirclePixelRegion', 'CircleSkyRegion']
     and abs(rs[1].center.ra.deg - 202.5) < 1e-9 and abs(rs[1].radius.to_value('deg') - 0.01) < 1e-12 and float(rs[2].center.x) == 3.0
     and rs[3].center.frame.name == 'galactic'),
    # global properties accumulate over several global lines; a later line only replaces the keys it names
    ('global color=cyan width=3\nglobal dash=1\nimage\ncircle(1,2,3)\nglobal color=red\ncircle(4,5,6) # width=1\n',
     lambda rs: len(rs) == 2 and rs[0].visual.get('facecolor') == 'cyan' and rs[0].visual.get('linewidth') == 3 and rs[0].visual.get('linestyle') == 'dashed'
     and rs[1].visual.get('facecolor') == 'red' and rs[1].visual.get('linewidth') == 1 and rs[1].visual.get('linestyle') == 'dashed'),
]


def h_special(i, m):
    from regions import Regions
    text, expect = SPECIAL[i]
    with warnings.catch_warnings():
        warnings.simplefilter('ignore')
        rs = Regions.parse(text, format='ds9')
    m.require('state rule: ' + text.replace('\n', ' | ')[:80], bool(expect(rs)))


def harnesses(tier):
    P = functools.partial
    n = 216 if tier == 'quick' else 1080
    hs = [(f'program/{i:04d}', P(h_program, i)) for i in range(n)]
    for i in range(len(SPECIAL)):
        hs.append((f'state-rule/{i:02d}', P(h_special, i)))
    return hs


def cases(tier, seed):
    return [(name, functools.partial(chk.run_case, 'C10', name, h, max_paths=300)) for name, h in harnesses(tier)]


META = {
    'count': 'symbolic',
    'rule': ('evaluations = SMT queries issued (validity + branch feasibility); an obligation is one (path, assertion) pair of a symbolic run of '
             'the real parser on one generated file; distinct_nontrivial counts distinct (obligation, goal) pairs whose goal is a formula over the '
             'symbolic numerals of the file (not a constant): these are decided by z3, most of them already by its simplifier because the parsed value '
             'and the reference value normalise to the same term; obligations about concrete fields (class, frame, text, sky positions) are evaluated directly'),
    'functions_encoded': ['regions.io.ds9.read._parse_ds9 / _parse_raw_data / _split_lines / _split_semicolon / _parse_shape_line / _parse_metadata / '
                          '_define_raw_metadata / _parse_pixel_coord / _parse_sky_coord / _parse_angle / _parse_size / _parse_shape_params / '
                          '_define_region_params / _make_region', 'regions.io.ds9.meta._split_raw_metadata / _translate_ds9_to_visual',
                          'regions.io.ds9.core templates and frame map'],
    'bounds': {'quick': {'programs': '216 generated files = 8 frames x 12 shape forms x 2.25 variants, each: optional unsupported frame, optional global line, '
                                     'comment / unsupported shape noise, one region line (separator style, case, sign, property list enumerated), one probe line',
                         'numbers': 'pixel coordinates and all sizes symbolic (any magnitude); sky positions in 9 concrete notations (incl. negative sexagesimal values below one degree); angles 5 notations',
                         'state rules': f'{len(SPECIAL)} literal files (no frame, frame reset by unsupported frames, composite, semicolons, sign persistence, text comments)'},
               'thorough': {'programs': 1080}},
    'outside_claim': ['sexagesimal arithmetic is astropy Angle (the check fixes which unit is handed to it)', 'files longer than ~6 lines: by induction over lines, '
                      'given that the parser state is (frame, global properties, composite properties), which the probe line observes after every generated line',
                      'DS9 features outside the supported subset (templates, multiple WCS, point shapes with size in a separate token, ...)'],
    'stubs': ['decimal tokens for numbers; regions.io.ds9.read.float -> token lookup'],
    'assumptions': ['the reference semantics in this file is a faithful reading of the DS9 region-file documentation for the supported subset'],
}
