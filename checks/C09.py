"""C09 DS9 serialise -> parse round-trips every region, and is a fixed point thereafter."""
import functools
import warnings

import numpy as np
import z3
import astropy.units as u

from vf import chk, symx, kernels
from vf.chk import And, Or, Not, Implies, Iff, If

PIX_SHAPES = ['circle', 'ellipse', 'rectangle', 'polygon', 'annulus-circle', 'annulus-ellipse', 'annulus-rectangle', 'line',
              'point', 'text']
ANGLES = [0 * u.deg, 30 * u.deg, -45 * u.deg, 200 * u.deg, 1 * u.rad]
# strings of text regions: quote characters at either end are legal text (they are what a strip() of quotes would eat)
TEXTS = {'text': 'some text', 'text-apos': "beam 5'", 'text-quot': '12"', 'text-lead': "'tis a \"q\"", 'text-brace-free': '  padded  '}
METAS = {
    'plain': ({}, {}),
    'text': ({'text': 'a label; with # odd = chars'}, {}),
    'tags': ({'tag': ['first tag', 'second'], 'text': 'x'}, {}),
    'visual': ({}, {'color': 'red', 'linewidth': 3, 'fill': 1}),
    'hexcolor': ({}, {'color': '#00ff7f', 'dash': 1, 'dashlist': '8 3'}),
    'font': ({'text': 'T'}, {'font': 'helvetica 12 bold roman', 'textangle': 30}),
    'point': ({}, {'point': 'x 7', 'width': 2}),
    'quote1': ({'text': 'r = 30"'}, {}),
    'quote2': ({'text': '"M31" core', 'tag': ["scale bar 5'"]}, {}),
    'emptytext': ({'text': '', 'tag': ['t']}, {'color': 'red'}),
    'flags': ({'select': 0, 'highlite': 1, 'fixed': 1, 'move': 0, 'source': 1}, {'textrotate': 0}),
}


def _shims(m):
    if m.sym:
        m.shim('regions.io.ds9.read', 'float', symx.sfloat)
        m.shim('regions.core.pixcoord', 'np', kernels.NPFacade())


def build_pix(kind, m, pre, meta, visual, ang):
    import regions as R
    from regions import PixCoord, RegionMeta, RegionVisual
    meta, visual = RegionMeta(meta), RegionVisual(visual)
    r_ = lambda n: m.real(pre + n)
    p_ = lambda n: m.pos(pre + n)
    dt = object if m.sym else float
    c = lambda: PixCoord(r_('cx'), r_('cy'))
    if kind == 'circle':
        return R.CirclePixelRegion(c(), p_('r'), meta=meta, visual=visual)
    if kind in ('ellipse', 'rectangle'):
        cls = R.EllipsePixelRegion if kind == 'ellipse' else R.RectanglePixelRegion
        return cls(c(), p_('w'), p_('h'), angle=ang, meta=meta, visual=visual)
    if kind == 'polygon':
        return R.PolygonPixelRegion(PixCoord(np.array([r_('x0'), r_('x1'), r_('x2')], dtype=dt),
                                             np.array([r_('y0'), r_('y1'), r_('y2')], dtype=dt)), meta=meta, visual=visual)
    if kind == 'regpoly':
        return R.RegularPolygonPixelRegion(c(), 4, p_('rad'), angle=ang, meta=meta, visual=visual)
    if kind == 'annulus-circle':
        r1 = p_('r1')
        return R.CircleAnnulusPixelRegion(c(), r1, r1 + p_('dr'), meta=meta, visual=visual)
    if kind in ('annulus-ellipse', 'annulus-rectangle'):
        cls = R.EllipseAnnulusPixelRegion if kind == 'annulus-ellipse' else R.RectangleAnnulusPixelRegion
        w1, h1 = p_('w1'), p_('h1')
        return cls(c(), w1, w1 + p_('dw'), h1, h1 + p_('dh'), angle=ang, meta=meta, visual=visual)
    if kind == 'line':
        return R.LinePixelRegion(PixCoord(r_('sx'), r_('sy')), PixCoord(r_('ex'), r_('ey')), meta=meta, visual=visual)
    if kind == 'point':
        return R.PointPixelRegion(c(), meta=meta, visual=visual)
    if kind in TEXTS:
        return R.TextPixelRegion(c(), TEXTS[kind], meta=meta, visual=visual)
    if kind == 'compound':
        return R.CirclePixelRegion(c(), p_('r')) | R.CirclePixelRegion(PixCoord(r_('bx'), r_('by')), p_('r2'))
    raise ValueError(kind)


def build_sky(kind, frame, meta, visual, ang):
    import regions as R
    from regions import RegionMeta, RegionVisual
    from astropy.coordinates import SkyCoord
    meta, visual = RegionMeta(meta), RegionVisual(visual)
    c = SkyCoord(201.25, -43.0625, unit='deg', frame='icrs').transform_to(frame)
    c = SkyCoord(c.spherical.lon.deg.round(6), c.spherical.lat.deg.round(6), unit='deg', frame=frame)
    a = u.arcsec
    if kind == 'circle-tiny':
        return R.CircleSkyRegion(c, 0.2 * a, meta=meta, visual=visual)           # below 1e-4 deg: written in exponent notation
    if kind == 'ellipse-tiny':
        return R.EllipseSkyRegion(c, 50 * u.mas, 0.3 * a, angle=2e-5 * u.deg, meta=meta, visual=visual)
    if kind == 'circle':
        return R.CircleSkyRegion(c, 3.5 * a, meta=meta, visual=visual)
    if kind in ('ellipse', 'rectangle'):
        cls = R.EllipseSkyRegion if kind == 'ellipse' else R.RectangleSkyRegion
        return cls(c, 7.25 * a, 0.05 * u.arcmin, angle=ang, meta=meta, visual=visual)
    if kind in ('ellipse-angle', 'annulus-ellipse-angle', 'circle-angle'):
        from astropy.coordinates import Angle
        if kind == 'circle-angle':
            return R.CircleSkyRegion(c, Angle(3.5, 'arcsec'), meta=meta, visual=visual)
        if kind == 'ellipse-angle':
            return R.EllipseSkyRegion(c, Angle(7.25, 'arcsec'), Angle(0.05, 'arcmin'), angle=Angle(ang), meta=meta, visual=visual)
        return R.EllipseAnnulusSkyRegion(c, Angle(2, 'arcsec'), Angle(5, 'arcsec'), Angle(1, 'arcsec'), Angle(3, 'arcsec'),
                                         angle=Angle(ang), meta=meta, visual=visual)
    if kind == 'polygon':
        sc = SkyCoord(c.spherical.lon.deg + np.array([0, 0.002, 0.001]), c.spherical.lat.deg + np.array([0, 0, 0.002]), unit='deg', frame=frame)
        return R.PolygonSkyRegion(sc, meta=meta, visual=visual)
    if kind == 'annulus-circle':
        return R.CircleAnnulusSkyRegion(c, 2 * a, 5.5 * a, meta=meta, visual=visual)
    if kind in ('annulus-ellipse', 'annulus-rectangle'):
        cls = R.EllipseAnnulusSkyRegion if kind == 'annulus-ellipse' else R.RectangleAnnulusSkyRegion
        return cls(c, 2 * a, 5 * a, 1 * a, 3 * a, angle=ang, meta=meta, visual=visual)
    if kind == 'line':
        return R.LineSkyRegion(c, SkyCoord(c.spherical.lon.deg + 0.003, c.spherical.lat.deg + 0.001, unit='deg', frame=frame), meta=meta, visual=visual)
    if kind == 'point':
        return R.PointSkyRegion(c, meta=meta, visual=visual)
    if kind in TEXTS:
        return R.TextSkyRegion(c, TEXTS[kind], meta=meta, visual=visual)
    raise ValueError(kind)


def _numeric(reg):
    """[(name, value, scale)]: scale 1 for values written as such, 2 for ellipse full axes (written as semi-axes)"""
    from regions import PixCoord
    ell = 'Ellipse' in type(reg).__name__
    out = []
    for p in reg._params:
        v = getattr(reg, p)
        if isinstance(v, PixCoord):
            for a, b in zip(np.asarray(v.x, dtype=object).reshape(-1), np.asarray(v.y, dtype=object).reshape(-1)):
                out += [(p + '.x', a, 1), (p + '.y', b, 1)]
        elif isinstance(v, u.Quantity):
            w = v.to_value(u.deg)
            out.append((p, w[()] if isinstance(w, np.ndarray) else w, 2 if (ell and p != 'angle') else 1))
        elif hasattr(v, 'frame') and hasattr(v, 'spherical'):
            for a, b in zip(np.atleast_1d(v.spherical.lon.deg), np.atleast_1d(v.spherical.lat.deg)):
                out += [(p + '.lon', float(a), 1), (p + '.lat', float(b), 1)]
        elif isinstance(v, str) or callable(v):
            out.append((p, v, 0))
        else:
            out.append((p, v, 2 if (ell and p in ('width', 'height', 'inner_width', 'inner_height', 'outer_width', 'outer_height')) else 1))
    return out


def _within(m, tag, a, b, prec, key=None):
    na, nb = _numeric(a), _numeric(b)
    m.require(f'{tag}: same parameter list', [n for n, _, _ in na] == [n for n, _, _ in nb], key=key)
    half = 0.5 * 10.0 ** (-prec)
    for (n, x, sc), (_, y, _) in zip(na, nb):
        if sc == 0:
            m.require(f'{tag}: {n} kept', x == y, key=key)
        else:
            tol = half * sc
            if n.endswith('.lon') or n.endswith('.lat') or (not symx.is_sym(x) and not symx.is_sym(y)):
                # concrete values pass through astropy's float formatting/parsing: allow one more ulp-scale slack
                d = abs(float(x) - float(y))
                if n.endswith('.lon'):
                    d = min(d, 360 - d)
                m.require(f'{tag}: {n} within half a unit of the requested precision', d <= tol * 1.0000001 + 1e-12, key=key)
            else:
                m.require(f'{tag}: {n} within half a unit of the requested precision (semi-axes for ellipses)',
                          And(x - y <= tol, y - x <= tol), key=key)


def _included(reg):
    return bool(reg.meta.get('include', 1))


def _assume_printable(m, regs, prec):
    """sizes smaller than the printed resolution are written as 0.000 and cannot round-trip in any format"""
    lo = 10.0 ** (-prec)
    for r in regs:
        ell = 'Ellipse' in type(r).__name__
        for n, v, sc in _numeric(r):
            if sc and symx.is_sym(v) and not n.endswith(('.x', '.y')) and n != 'angle':
                m.assume(v >= lo * (2 if ell else 1) * 1.5)
        # the gap of an annulus must be printable too (inner and outer size must not print alike)
        for a_, b_ in (('inner_radius', 'outer_radius'), ('inner_width', 'outer_width'), ('inner_height', 'outer_height')):
            if hasattr(r, a_) and symx.is_sym(getattr(r, a_)):
                m.assume(getattr(r, b_) - getattr(r, a_) >= lo * (2 if ell else 1) * 1.5)


def h_roundtrip(kinds, metas, includes, prec, ang_i, frames, m):
    from regions import Regions
    from regions.core.core import PixelRegion
    _shims(m)
    regs = []
    for i, (k, mk, inc, fr) in enumerate(zip(kinds, metas, includes, frames)):
        md, vd = METAS[mk]
        md = dict(md)
        if k in TEXTS:
            md.pop('text', None)      # a text region's string is its text parameter
        if inc != 'absent':
            md['include'] = inc
        ang = ANGLES[(ang_i + i) % len(ANGLES)]
        if fr == 'image':
            regs.append(build_pix(k, m, f'r{i}_', md, vd, ang))
        elif fr == 'supergalactic':
            import regions as R
            from astropy.coordinates import SkyCoord
            regs.append(R.CircleSkyRegion(SkyCoord(10, 20, unit='deg').transform_to('supergalactic'), 2 * u.arcsec))
        else:
            regs.append(build_sky(k, fr, md, vd, ang))
    _assume_printable(m, regs, prec)
    with warnings.catch_warnings(record=True) as wl:
        warnings.simplefilter('always')
        text = Regions(regs).serialize(format='ds9', precision=prec)
        text2 = Regions(regs).serialize(format='ds9', precision=prec)
    expressible = [i for i, (k, fr) in enumerate(zip(kinds, frames)) if k != 'compound' and fr != 'supergalactic']
    m.require('unsupported members produce a warning each', len([w for w in wl if 'skipping' in str(w.message)]) >= 2 * (len(regs) - len(expressible)))
    if m.sym:
        # serialising twice gives the same text up to the (fresh) decimal tokens: compare after mapping tokens to their terms
        m.require('serialising is deterministic', _same_text(text, text2))
    else:
        m.require('serialising is deterministic', text == text2)
    with warnings.catch_warnings():
        warnings.simplefilter('ignore')
        back = Regions.parse(text, format='ds9')
    m.require('exactly one parsed region per expressible input region', len(back) == len(expressible))
    if len(back) != len(expressible):
        return
    for j, i in enumerate(expressible):
        orig, new = regs[i], back[j]
        tag = f'#{i} {kinds[i]}@{frames[i]}'
        ref = orig.to_polygon() if kinds[i] == 'regpoly' else orig
        m.require(f'{tag}: same class', type(new) is type(ref))
        if type(new) is not type(ref):
            continue
        if frames[i] != 'image':
            fo = [getattr(ref, p).frame.name for p in ref._params if hasattr(getattr(ref, p), 'frame')]
            fn = [getattr(new, p).frame.name for p in new._params if hasattr(getattr(new, p), 'frame')]
            m.require(f'{tag}: same celestial frame', fo == fn)
        _within(m, tag, ref, new, prec)
        m.require(f'{tag}: include / exclude sense preserved', _included(new) == _included(orig))
        md = METAS[metas[i]][0]
        md = dict(md)
        if kinds[i] in TEXTS:
            md.pop('text', None)
        if 'text' in md and kinds[i] not in TEXTS:
            m.require(f'{tag}: text label preserved', new.meta.get('text') == md['text'])
        if 'tag' in md:
            m.require(f'{tag}: tags preserved', new.meta.get('tag') == md['tag'])
        for k_ in ('select', 'highlite', 'fixed', 'move', 'source'):
            if k_ in md:
                m.require(f'{tag}: {k_} flag preserved', new.meta.get(k_) == md[k_])
        if kinds[i] in TEXTS:
            m.require(f'{tag}: text content preserved', new.text == orig.text)
    # parse -> serialise -> parse is a fixed point
    with warnings.catch_warnings():
        warnings.simplefilter('ignore')
        again = Regions.parse(back.serialize(format='ds9', precision=prec), format='ds9')
    m.require('fixed point: same number of regions', len(again) == len(back))
    if len(again) == len(back):
        for j, (a, b) in enumerate(zip(back, again)):
            if type(a) is type(b):
                _within(m, f'fixed point #{j}', a, b, prec, key='C09:fixed-point')
                m.require(f'fixed point #{j}: meta equal', dict(a.meta) == dict(b.meta))
                m.require(f'fixed point #{j}: visual equal', dict(a.visual) == dict(b.visual))
            else:
                m.require(f'fixed point #{j}: same class', False)
    # the lines of the expressible regions are the same as without the unsupported members
    if len(expressible) != len(regs) and expressible:
        with warnings.catch_warnings():
            warnings.simplefilter('ignore')
            only = Regions([regs[i] for i in expressible]).serialize(format='ds9', precision=prec)
        m.require('unsupported members do not alter the output of the other regions',
                  _same_text(text, only) if m.sym else text == only)


def _same_text(a, b):
    """texts equal after replacing decimal tokens by the terms they denote"""
    import re
    c = symx.ctx()
    ta = re.split(r'(7\d{6}(?:\.\d+)?)', a)
    tb = re.split(r'(7\d{6}(?:\.\d+)?)', b)
    if len(ta) != len(tb):
        return False
    conds = []
    for x, y in zip(ta, tb):
        if x in c.tokens and y in c.tokens:
            sx, px = c.token_info[x]
            sy, py = c.token_info[y]
            if px != py or not z3.simplify(sx.t).eq(z3.simplify(sy.t)):
                return False
        elif x != y:
            return False
    return True


LITERALS = {
    'circle': 'circle(10.5,20.25,3.5)', 'ellipse': 'ellipse(10.5,20.25,3.5,2.25,30)', 'box': 'box(10.5,20.25,3.5,2.25,30)',
    'polygon': 'polygon(1,2,7.5,3,4,9.25)', 'annulus': 'annulus(10.5,20.25,3.5,5.5)', 'ellipse-annulus': 'ellipse(10.5,20.25,3.5,2.25,5.5,4.25,30)',
    'box-annulus': 'box(10.5,20.25,3.5,2.25,5.5,4.25,30)', 'line': 'line(1,2,7.5,3)', 'point': 'point(10.5,20.25)', 'text': 'text(10.5,20.25)',
}
LITERAL_PROPS = ['fill=1 color=red width=2', 'dash=1 dashlist=8 3 color=#00ff7f', 'fill=0 select=0 move=0 tag={t 1} tag={t2}', 'fill=1 text={a;b} font="helvetica 12 bold roman"',
                 'text={} color=red width=2 tag={t 1}']


def h_fixed_literal(kind, pi, frame, m):
    """parse -> serialise -> parse is a fixed point, starting from DS9 text that carries properties (fill, dash, flags, tags)"""
    from regions import Regions
    props = LITERAL_PROPS[pi]
    if kind == 'text' and 'text=' not in props:
        props += ' text={label}'
    if kind == 'point':
        props += ' point=x 7'
    body = LITERALS[kind]
    if frame != 'image':
        body = body.replace('10.5,20.25', '150.5,-20.25')
    text = f'# Region file format: DS9\n{frame}\n{body} # {props}\n-{body} # {props}\n'
    with warnings.catch_warnings():
        warnings.simplefilter('ignore')
        first = Regions.parse(text, format='ds9')
        out = first.serialize(format='ds9', precision=6)
        second = Regions.parse(out, format='ds9')
    m.require('literal is parsed (one region per line)', len(first) == 2)
    m.require('fixed point: same number of regions', len(second) == len(first))
    if len(second) != len(first):
        return
    for j, (a, b) in enumerate(zip(first, second)):
        m.require(f'fixed point #{j}: same class', type(a) is type(b))
        m.require(f'fixed point #{j}: region equal', a == b)
        m.require(f'fixed point #{j}: meta equal', dict(a.meta) == dict(b.meta))
        m.require(f'fixed point #{j}: visual equal', dict(a.visual) == dict(b.visual))


def harnesses(tier):
    P = functools.partial
    q = tier == 'quick'
    hs = []
    for ki, kind in enumerate(LITERALS):
        for pi in (range(len(LITERAL_PROPS)) if not q else [ki % len(LITERAL_PROPS), (ki + 1) % len(LITERAL_PROPS)]):
            for frame in (['image', 'fk5'] if kind not in ('polygon', 'line') else ['image']):
                hs.append((f'literal-fixed-point/{kind}/props{pi}/{frame}', P(h_fixed_literal, kind, pi, frame)))
    mk_names = list(METAS)
    k = 0
    for kind in PIX_SHAPES + ['regpoly']:
        for prec in (([1, 5] + ([10] if kind in ('polygon', 'regpoly', 'circle', 'line') else [])) if q else [1, 3, 5, 8, 10, 12]):
            for inc in (['absent', False, 0] if q else ['absent', True, False, 0, 1]):
                mk = mk_names[k % len(mk_names)]
                if kind not in ('point',) and mk == 'point':
                    mk = 'visual'
                k += 1
                hs.append((f'pixel/{kind}/prec={prec}/include={inc}/meta={mk}',
                           P(h_roundtrip, [kind], [mk], [inc], prec, k, ['image'])))
    for mk in mk_names:
        hs.append((f'pixel-meta/circle/{mk}', P(h_roundtrip, ['circle'], [mk if mk != 'point' else 'visual'], ['absent'], 4, 1, ['image'])))
    hs.append(('pixel-meta/point/point', P(h_roundtrip, ['point'], ['point'], ['absent'], 4, 1, ['image'])))
    for tk in TEXTS:
        if tk != 'text':
            hs.append((f'pixel/{tk}', P(h_roundtrip, [tk], ['plain'], ['absent'], 4, 1, ['image'])))
            hs.append((f'sky/{tk}/fk5', P(h_roundtrip, [tk], ['visual'], [0], 4, 1, ['fk5'])))
    hs.append(('pixel-meta/text/font', P(h_roundtrip, ['text'], ['font'], ['absent'], 4, 1, ['image'])))
    for fr in ('icrs', 'fk5', 'fk4', 'galactic', 'barycentricmeanecliptic'):
        for kind in (PIX_SHAPES if not q else ['circle', 'ellipse', 'polygon', 'annulus-ellipse', 'line', 'text', 'rectangle']):
            hs.append((f'sky/{kind}/{fr}', P(h_roundtrip, [kind], ['tags' if kind != 'text' else 'plain'], [0 if kind == 'circle' else 'absent'], 6, 2, [fr])))
    for kind in ('ellipse-angle', 'annulus-ellipse-angle', 'circle-angle', 'circle-tiny', 'ellipse-tiny'):
        hs.append((f'sky/{kind}/icrs', P(h_roundtrip, [kind], ['plain'], ['absent'], 6, 1, ['icrs'])))
    lists = [
        (['circle', 'ellipse'], ['visual', 'visual'], ['absent', 'absent'], ['image', 'image']),             # shared meta -> global line
        (['circle', 'rectangle'], ['visual', 'text'], [0, 0], ['image', 'image']),                           # all excluded
        (['circle', 'polygon', 'point'], ['plain', 'tags', 'point'], ['absent', False, 'absent'], ['image', 'image', 'image']),
        (['circle', 'circle', 'circle'], ['plain', 'plain', 'plain'], ['absent', 'absent', 'absent'], ['fk5', 'galactic', 'fk5']),   # mixed frames
        (['circle', 'ellipse', 'circle'], ['visual', 'visual', 'visual'], ['absent', 'absent', 'absent'], ['image', 'icrs', 'image']),
        (['compound', 'circle', 'rectangle'], ['plain', 'visual', 'plain'], ['absent', 'absent', 0], ['image', 'image', 'image']),
        (['circle', 'compound'], ['plain', 'plain'], ['absent', 'absent'], ['image', 'image']),
        (['circle', 'circle', 'ellipse'], ['plain', 'plain', 'plain'], ['absent', 'absent', 'absent'], ['image', 'supergalactic', 'image']),
        (['compound'], ['plain'], ['absent'], ['image']),
        (['circle', 'circle', 'ellipse'], ['plain', 'plain', 'plain'], ['absent', 0, False], ['fk5', 'galactic', 'image']),   # mixed frames + excluded members
        (['rectangle', 'circle'], ['plain', 'plain'], [0, 'absent'], ['icrs', 'image']),
        # an inexpressible member in first / middle position, every member with DIFFERENT metadata and include sense
        (['circle', 'circle', 'ellipse'], ['text', 'visual', 'tags'], [0, 'absent', 'absent'], ['supergalactic', 'image', 'image']),
        (['circle', 'circle', 'rectangle'], ['tags', 'text', 'hexcolor'], ['absent', 0, False], ['image', 'supergalactic', 'image']),
        (['circle', 'compound', 'rectangle'], ['tags', 'plain', 'hexcolor'], ['absent', 'absent', 0], ['image', 'image', 'image']),
    ]
    for i, (ks, ms, incs, frs) in enumerate(lists):
        hs.append((f'list{i}/{"+".join(ks)}/{"+".join(frs)}', P(h_roundtrip, ks, ms, incs, 5, i, frs)))
    return hs


def cases(tier, seed):
    return [(name, functools.partial(chk.run_case, 'C09', name, h, max_paths=600)) for name, h in harnesses(tier)]


META = {
    'functions_encoded': ['regions.io.ds9.write._serialize_ds9/_serialize_region_ds9/_get_region_params/_get_frame_name/_make_meta_str',
                          'regions.io.ds9.meta._translate_metadata_to_ds9/_split_raw_metadata/_translate_ds9_to_visual',
                          'regions.io.ds9.read._parse_ds9 and everything below it (line splitting, lexers, templates, region construction)'],
    'bounds': {'quick': {'pixel regions': 'all ten DS9 shapes + regular polygon; every coordinate and size symbolic (decimal tokens), precision in {1, 5} (10 for polygon / regular polygon / circle / line)',
                         'sky regions': '7 shapes x 5 celestial frames, concrete coordinates / sizes, precision 6',
                         'angles': 'concrete: 0, 30, -45, 200 deg, 1 rad', 'include': ['absent', False, 0],
                         'metadata vocabularies': list(METAS), 'lists': '14 lists of 1-3 regions (shared / distinct metadata, all excluded, mixed frames, mixed frames with excluded members, unsupported members at each position)', 'literal fixed points': '10 shapes x 2 property lists (fill, dash, flags, tags, fonts) x image / fk5, each included and excluded'},
               'thorough': {'precision': [1, 3, 5, 8, 12], 'include': ['absent', True, False, 0, 1], 'sky shapes': 'all ten'}},
    'outside_claim': ['numeric round trip of sky coordinates / angular sizes goes through astropy (SkyCoord.to_string, Angle parsing) on the concrete values only',
                      'rotation angles are concrete (astropy Quantity.to_string needs floats)',
                      'sizes below 1.5 printed units are excluded (a size that prints as 0 cannot round-trip in any text format)',
                      'ellipse axes are written as semi-axes: the half-unit bound applies to the semi-axis (one unit on the full axis)',
                      'lists longer than 3'],
    'stubs': ['decimal tokens: format(sym, ".pf") returns a unique numeral denoting N/10^p with |N/10^p - value| <= 1/2 10^-p (ties either way)',
              'regions.io.ds9.read.float -> token lookup (builtin float otherwise)'],
    'assumptions': ['floats are interpreted as reals; Python float formatting rounds to nearest (ties unspecified)'],
}
