"""C05 applying a mask to an image is exact placement at the bounding box."""
import functools
import itertools

import numpy as np
import z3
import astropy.units as u

from vf import chk, symx, kernels
from vf.chk import And, Or, Not, Implies, Iff, If

BB = 'regions.core.bounding_box'


def _shims(m):
    m.shim(BB, '_is_int', symx.sym_is_int)
    m.shim(BB, 'int', symx.sint)
    if m.sym:
        m.shim('regions.core.mask', 'np', kernels.NPFacade())


def _setup(m, ishape, mshape, weights='sym'):
    """image of symbolic values, mask of symbolic weights in [0,1], box at a symbolic integer position"""
    from regions import RegionBoundingBox, RegionMask
    H, W = ishape
    ny, nx = mshape
    dt = object if m.sym else float
    if weights == 'view':
        # the image is a VIEW of a larger array (a trimmed sub-image): neither it nor its parent may be written to
        parent = np.empty((H + 2, W + 2), dtype=dt)
        for idx in np.ndindex(*parent.shape):
            parent[idx] = 1000.0 + idx[0] * 10 + idx[1]
        img = parent[1:-1, 1:-1]
        _setup.parent = parent
    else:
        img = np.empty((H, W), dtype=dt)
    for y in range(H):
        for x in range(W):
            img[y, x] = m.real(f'img_{y}_{x}')
    w = np.empty((ny, nx), dtype=dt)
    for j in range(ny):
        for i in range(nx):
            w[j, i] = m.real(f'w_{j}_{i}', lo=0, hi=1)
    x0, y0 = m.integer('ixmin'), m.integer('iymin')
    bb = RegionBoundingBox(x0, x0 + nx, y0, y0 + ny)
    mask = RegionMask(w, bb)
    return img, w, x0, y0, mask


def _cells(a):
    return [a[idx] for idx in np.ndindex(*a.shape)]


def _same_cells(a, cells):
    return all(x is y or (not symx.is_sym(x) and not symx.is_sym(y) and x == y) for x, y in zip(_cells(a), cells))


def _conc(v):
    """python int of an integral value that is concrete on this path"""
    if isinstance(v, symx.SymReal):
        t = z3.simplify(v.t)
        if z3.is_rational_value(t):
            return t.numerator_as_long()
        return symx.concretize(v)
    return int(v)


def _overlap(x0, y0, nx, ny, W, H):
    return And(chk.Max(x0, 0) < chk.Min(x0 + nx, W), chk.Max(y0, 0) < chk.Min(y0 + ny, H))


def h_to_image(ishape, mshape, m):
    _shims(m)
    img, w, x0, y0, mask = _setup(m, ishape, mshape)
    H, W = ishape
    ny, nx = mshape
    out = mask.to_image((H, W), dtype=object if m.sym else float)
    ov = _overlap(x0, y0, nx, ny, W, H)
    m.require('to_image is None exactly when box and image share no pixel', Iff(out is None, Not(ov)))
    if out is None:
        return
    m.require('image has the requested shape', np.shape(out) == (H, W))
    X0, Y0 = _conc(x0), _conc(y0)
    for y in range(H):
        for x in range(W):
            j, i = y - Y0, x - X0
            if 0 <= j < ny and 0 <= i < nx:
                m.require(f'image[{y},{x}] is the mask value placed at the box', out[y, x] == w[j, i])
            else:
                m.require(f'image[{y},{x}] outside the box is 0', out[y, x] == 0)


def h_cutout(ishape, mshape, copy, m):
    _shims(m)
    img, w, x0, y0, mask = _setup(m, ishape, mshape)
    H, W = ishape
    ny, nx = mshape
    before = _cells(img)
    fill = m.real('fill')
    out = mask.cutout(img, fill_value=fill, copy=copy)
    ov = _overlap(x0, y0, nx, ny, W, H)
    m.require('cutout is None exactly when box and image share no pixel', Iff(out is None, Not(ov)))
    m.require('the input image is not modified', _same_cells(img, before))
    if out is None:
        return
    m.require('cutout has the shape of the mask', np.shape(out) == (ny, nx))
    X0, Y0 = _conc(x0), _conc(y0)
    inside = X0 >= 0 and Y0 >= 0 and X0 + nx <= W and Y0 + ny <= H
    for j in range(ny):
        for i in range(nx):
            y, x = Y0 + j, X0 + i
            if 0 <= y < H and 0 <= x < W:
                m.require(f'cutout[{j},{i}] is the image pixel under it', out[j, i] is img[y, x] or out[j, i] == img[y, x])
            else:
                m.require(f'cutout[{j},{i}] outside the image is the fill value', out[j, i] == fill)
    if inside:
        m.require('fully inside: copy=False gives a view, copy=True a copy',
                  np.shares_memory(out, img) == (not copy))
    else:
        m.require('partial overlap: a new array', not np.shares_memory(out, img))


def h_multiply(ishape, mshape, m, view=False):
    _shims(m)
    img, w, x0, y0, mask = _setup(m, ishape, mshape, weights='view' if view else 'sym')
    parent_before = _cells(_setup.parent) if view else None
    H, W = ishape
    ny, nx = mshape
    before = _cells(img)
    fill = m.real('fill')
    out = mask.multiply(img, fill_value=fill)
    ov = _overlap(x0, y0, nx, ny, W, H)
    m.require('multiply is None exactly when box and image share no pixel', Iff(out is None, Not(ov)))
    m.require('the input image is not modified', _same_cells(img, before))
    if view:
        m.require('the array the input image is a view of is not modified', _same_cells(_setup.parent, parent_before))
    if out is None:
        return
    X0, Y0 = _conc(x0), _conc(y0)
    for j in range(ny):
        for i in range(nx):
            y, x = Y0 + j, X0 + i
            base = img[y, x] if (0 <= y < H and 0 <= x < W) else fill
            m.require(f'weighted cutout[{j},{i}] = cutout x weight, fill where the weight is zero',
                      If(w[j, i] == 0, out[j, i] == fill, out[j, i] == base * w[j, i]))


def h_get_values(ishape, mshape, usermask, m):
    _shims(m)
    img, w, x0, y0, mask = _setup(m, ishape, mshape)
    H, W = ishape
    ny, nx = mshape
    before = _cells(img)
    um = None
    if usermask is not None:
        um = np.zeros((H, W), dtype=bool)
        for (y, x) in usermask:
            if y < H and x < W:
                um[y, x] = True
        um_before = um.copy()
    vals = mask.get_values(img, mask=um)
    m.require('the input image is not modified', _same_cells(img, before))
    if um is not None:
        m.require('the user mask is not modified', bool((um == um_before).all()))
    ov = _overlap(x0, y0, nx, ny, W, H)
    vals = np.asarray(vals)
    m.require('result is 1-D', vals.ndim == 1)
    if not bool(ov):          # forks: all non-overlapping positions stay one symbolic path
        m.require('no common pixel: an empty array', len(vals) == 0)
        return
    X0, Y0 = _conc(x0), _conc(y0)
    expected = []
    for j in range(ny):
        for i in range(nx):
            y, x = Y0 + j, X0 + i
            if 0 <= y < H and 0 <= x < W:
                if um is not None and um[y, x]:
                    continue
                expected.append((w[j, i], img[y, x]))
    # weights are concrete-signed on this path (the comparison forked): select positives
    sel = [(ww, vv) for ww, vv in expected if bool(ww > 0)]
    m.require('one value per overlapping pixel with positive weight that is not user-masked', len(vals) == len(sel))
    if len(vals) == len(sel):
        for k, (ww, vv) in enumerate(sel):
            m.require(f'value {k} is pixel x weight (C order)', vals[k] == vv * ww)
    if um is not None:
        # history: a call with a user mask must not influence a later call without one
        again = np.asarray(mask.get_values(img))
        full = []
        for j in range(ny):
            for i in range(nx):
                y, x = Y0 + j, X0 + i
                if 0 <= y < H and 0 <= x < W and bool(w[j, i] > 0):
                    full.append(img[y, x] * w[j, i])
        m.require('after a call with a user mask, a call without one returns every positive-weight pixel',
                  len(again) == len(full) and all(bool(a == b) if not symx.is_sym(a == b) else True for a, b in zip(again, full)))
        if len(again) == len(full):
            for k in range(len(full)):
                m.require(f'later unmasked value {k}', again[k] == full[k])
        m.require('the mask data itself is unchanged', _same_cells(np.asarray(mask.data), _cells(w)))


def h_mask_errors(m):
    from regions import RegionBoundingBox, RegionMask
    mk = RegionMask(np.ones((2, 2)), RegionBoundingBox(0, 2, 0, 2))
    for f, arg in ((mk.to_image, (3,)), (mk.to_image, (2, 2, 2)), (mk.cutout, np.zeros(4)), (mk.cutout, np.zeros((2, 2, 2)))):
        try:
            f(arg)
            m.require('non-2D input rejected with ValueError', False)
        except ValueError:
            m.require('non-2D input rejected with ValueError', True)
    try:
        mk.get_values(np.zeros((3, 3)), mask=np.zeros((2, 2), dtype=bool))
        m.require('user mask of the wrong shape rejected', False)
    except ValueError:
        m.require('user mask of the wrong shape rejected', True)


def h_dtypes(m):
    """dtype / fill interactions on concrete data, every box position in -3..4 (executed)"""
    from regions import RegionBoundingBox, RegionMask
    data_i = np.arange(12, dtype=int).reshape(3, 4)
    data_f = data_i.astype(float) + 0.5
    data_q = data_f * u.Jy
    wts = np.array([[1.0, 0.5], [0.0, 0.25]])
    for X0, Y0 in itertools.product(range(-3, 5), range(-3, 4)):
        mk = RegionMask(wts, RegionBoundingBox(X0, X0 + 2, Y0, Y0 + 2))
        common = max(X0, 0) < min(X0 + 2, 4) and max(Y0, 0) < min(Y0 + 2, 3)
        inside = X0 >= 0 and Y0 >= 0 and X0 + 2 <= 4 and Y0 + 2 <= 3
        for data in (data_i, data_f, data_q):
            keep = data.copy()
            for fill in (0, 7.5, np.nan, np.inf):
                c = mk.cutout(data, fill_value=fill)
                m.require(f'cutout None iff no overlap @({X0},{Y0})', (c is None) == (not common))
                if c is None:
                    continue
                ok = True
                for j in range(2):
                    for i in range(2):
                        y, x = Y0 + j, X0 + i
                        got = c[j, i].value if isinstance(c, u.Quantity) else c[j, i]
                        if 0 <= y < 3 and 0 <= x < 4:
                            exp = data[y, x].value if isinstance(data, u.Quantity) else data[y, x]
                            ok = ok and (got == exp)
                        else:
                            ok = ok and ((np.isnan(got) and np.isnan(fill)) or got == (int(fill) if (data is data_i and np.isfinite(fill)) else fill))
                m.require(f'cutout values @({X0},{Y0}) fill={fill} dtype={data.dtype}', bool(ok))
                if isinstance(data, u.Quantity):
                    m.require('Quantity data gives a Quantity cutout in the same unit', isinstance(c, u.Quantity) and c.unit == u.Jy)
                if not inside and not np.isfinite(fill):
                    m.require('non-finite fill promotes the cutout to float', np.asarray(c).dtype.kind == 'f')
            m.require('data unchanged', bool(np.all(np.asarray(keep) == np.asarray(data))))
            v = mk.get_values(data)
            if isinstance(data, u.Quantity) and len(v):
                m.require('Quantity data gives Quantity values in the same unit', isinstance(v, u.Quantity) and v.unit == u.Jy)
            m.require(f'get_values empty iff nothing selected @({X0},{Y0})', (len(v) == 0) == (not any(
                0 <= Y0 + j < 3 and 0 <= X0 + i < 4 and wts[j, i] > 0 for j in range(2) for i in range(2))))


def h_nonfinite(m):
    """images holding nan / inf (outside the real-number model of the symbolic cases): multiply, cutout and get_values on concrete
    data, every box position in -3..4, with the image a plain array and a view of a larger one (executed)"""
    from regions import RegionBoundingBox, RegionMask
    base = np.arange(12, dtype=float).reshape(3, 4) + 0.5
    wts = np.array([[1.0, 0.5], [0.0, 0.25]])

    def same(a, b):
        a, b = np.asarray(a, dtype=float), np.asarray(b, dtype=float)
        return a.shape == b.shape and bool(np.all((a == b) | (np.isnan(a) & np.isnan(b))))
    for bad in (np.nan, np.inf, -np.inf):
        for view in (False, True):
            for X0, Y0 in itertools.product(range(-3, 5), range(-3, 4)):
                parent = np.full((5, 6), 99.0)
                parent[1:4, 1:5] = base
                # the non-finite cells: the one under the zero weight of this box position (if it is on the image) and a fixed one
                if 0 <= Y0 + 1 < 3 and 0 <= X0 < 4:
                    parent[1 + Y0 + 1, 1 + X0] = bad
                parent[1 + 2, 1 + 3] = bad
                data = parent[1:4, 1:5] if view else parent[1:4, 1:5].copy()
                keep, pkeep = data.copy(), parent.copy()
                mk = RegionMask(wts, RegionBoundingBox(X0, X0 + 2, Y0, Y0 + 2))
                common = max(X0, 0) < min(X0 + 2, 4) and max(Y0, 0) < min(Y0 + 2, 3)
                for fill in (0.0, 7.5):
                    wc = mk.multiply(data, fill_value=fill)
                    m.require(f'multiply None iff no overlap @({X0},{Y0})', (wc is None) == (not common))
                    m.require(f'multiply leaves an image holding {bad} unchanged @({X0},{Y0}) view={view}', same(data, keep))
                    if view:
                        m.require('the array the image is a view of is unchanged', same(parent, pkeep))
                    if wc is None:
                        continue
                    exp = np.empty((2, 2))
                    for j in range(2):
                        for i in range(2):
                            y, x = Y0 + j, X0 + i
                            if wts[j, i] == 0:
                                exp[j, i] = fill
                            elif 0 <= y < 3 and 0 <= x < 4:
                                exp[j, i] = keep[y, x] * wts[j, i]
                            else:
                                exp[j, i] = fill * wts[j, i]
                    m.require(f'weighted cutout of an image holding {bad} @({X0},{Y0}) fill={fill}', same(wc, exp))
                v = mk.get_values(data)
                expv = [keep[Y0 + j, X0 + i] * wts[j, i] for j in range(2) for i in range(2)
                        if wts[j, i] > 0 and 0 <= Y0 + j < 3 and 0 <= X0 + i < 4]
                m.require(f'get_values of an image holding {bad} @({X0},{Y0})', same(v, np.array(expv)))
                m.require('get_values leaves the image unchanged', same(data, keep) and same(parent, pkeep))


def harnesses(tier):
    P = functools.partial
    q = tier == 'quick'
    shapes = [((2, 3), (1, 1)), ((2, 2), (2, 2)), ((1, 2), (2, 1)), ((0, 3), (1, 1)), ((2, 0), (2, 2))] if q else \
        [((2, 3), (1, 1)), ((2, 2), (2, 2)), ((1, 2), (2, 1)), ((0, 3), (1, 1)), ((2, 0), (2, 2)), ((3, 3), (2, 2)), ((2, 2), (3, 2)),
         ((3, 2), (1, 3)), ((1, 1), (2, 2))]
    hs = []
    for ish, msh in shapes:
        tag = f'image{ish[0]}x{ish[1]}/mask{msh[0]}x{msh[1]}'
        hs.append((f'to_image/{tag}', P(h_to_image, ish, msh)))
        hs.append((f'cutout/{tag}/view', P(h_cutout, ish, msh, False)))
        hs.append((f'cutout/{tag}/copy', P(h_cutout, ish, msh, True)))
        hs.append((f'multiply/{tag}', P(h_multiply, ish, msh)))
        if (ish, msh) in (((2, 2), (2, 2)), ((2, 3), (1, 1))):
            hs.append((f'multiply/{tag}/image-is-a-view', P(h_multiply, ish, msh, view=True)))
        hs.append((f'get_values/{tag}', P(h_get_values, ish, msh, None)))
        hs.append((f'get_values/{tag}/usermask', P(h_get_values, ish, msh, [(0, 0), (1, 1)])))
    hs.append(('errors', h_mask_errors))
    hs.append(('dtypes-executed', h_dtypes))
    hs.append(('nonfinite-image-executed', h_nonfinite))
    return hs


def cases(tier, seed):
    return [(name, functools.partial(chk.run_case, 'C05', name, h, max_paths=4000)) for name, h in harnesses(tier)]


META = {
    'functions_encoded': ['regions.core.mask.RegionMask.__init__/to_image/cutout/multiply/get_values/_get_overlap_cutouts/get_overlap_slices',
                          'regions.core.bounding_box.RegionBoundingBox.get_overlap_slices/shape'],
    'bounds': {'quick': {'image x mask shapes': '2x3/1x1, 2x2/2x2, 1x2/2x1, 0x3/1x1, 2x0/2x2',
                         'box position': 'unbounded symbolic integers (the solver enumerates the overlapping positions; one symbolic path for all non-overlapping ones)',
                         'pixel values, weights in [0,1], fill value': 'symbolic reals; zero pattern of the weights by path forking',
                         'views': 'multiply with the image a view of a larger array (2x2/2x2, 2x3/1x1): parent untouched', 'dtype cases': 'int / float / Quantity data x fill in {0, 7.5, nan, inf} x 56 box positions (executed)',
                         'non-finite images': 'image cells nan / +inf / -inf (one under the zero weight of the box, one fixed) x plain array / view of a larger array x fill in {0, 7.5} x 56 box positions: multiply, get_values, image and parent unchanged (executed, no solver verdict: non-finite values are outside the real-number model)'},
               'thorough': {'image x mask shapes': 'adds 3x3/2x2, 2x2/3x2 (mask larger than image), 3x2/1x3, 1x1/2x2 (2x2/3x3 exceeds the path cap: 2^9 weight patterns x positions)'}},
    'outside_claim': ['larger shapes', 'numpy dtype promotion rules beyond the enumerated dtype/fill table',
                      'symbolic fill values that are non-finite (covered only in the executed dtype table)',
                      'symbolic image values that are non-finite (covered only by the executed non-finite image table)'],
    'stubs': ['regions.core.mask.np -> facade (isfinite on symbols)', 'regions.core.bounding_box._is_int/int'],
    'assumptions': ['floats are interpreted as reals; Python/numpy integer indices are mathematical integers'],
}
