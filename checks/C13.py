"""C13 operations never mutate their inputs nor depend on call history."""
import copy
import functools
import io
import os
import tempfile
import warnings

import numpy as np
import z3
import astropy.units as u

from vf import chk, symx, kernels
from vf.chk import And, Or, Not, Implies, Iff, If, CaseResult

REPO = os.environ.get('VERIF_REPO', '/repo')


# --------------------------------------------------------------------------
# deep fingerprints
# --------------------------------------------------------------------------
def fp(v, depth=0):
    """structural fingerprint with full numeric precision (bit-for-bit for floats)"""
    from regions.core.core import Region
    from regions import PixCoord, Regions, RegionMask, RegionBoundingBox
    if depth > 8:
        return '...'
    if isinstance(v, Region):
        return (type(v).__name__, tuple((p, fp(getattr(v, p, '<deleted>'), depth + 1)) for p in v._params),
                ('meta', fp(dict(v.meta), depth + 1)), ('visual', fp(dict(v.visual), depth + 1)))
    if isinstance(v, PixCoord):
        return ('PixCoord', fp(v.x, depth + 1), fp(v.y, depth + 1))
    if isinstance(v, (Regions,)):
        return ('Regions', tuple(fp(r, depth + 1) for r in v.regions))
    if isinstance(v, RegionMask):
        return ('RegionMask', fp(v.data, depth + 1), fp(v.bbox, depth + 1))
    if isinstance(v, RegionBoundingBox):
        return ('bbox', v.ixmin, v.ixmax, v.iymin, v.iymax)
    if isinstance(v, u.Quantity):
        return ('Q', str(v.unit), fp(np.asarray(v.value), depth + 1))
    if isinstance(v, np.ndarray):
        if v.dtype == object:
            return ('objarr', v.shape, tuple(fp(x, depth + 1) for x in v.reshape(-1)))
        return ('arr', str(v.dtype), v.shape, v.tobytes())
    if isinstance(v, (float, np.floating)):
        return ('f', float(v).hex())
    if isinstance(v, dict):
        return ('dict', tuple((repr(k), fp(x, depth + 1)) for k, x in v.items()))
    if isinstance(v, (list, tuple)):
        return (type(v).__name__, tuple(fp(x, depth + 1) for x in v))
    if hasattr(v, 'frame') and hasattr(v, 'to_string'):      # SkyCoord
        return ('SkyCoord', v.frame.name, fp(np.asarray(v.spherical.lon.deg), depth + 1),
                fp(np.asarray(v.spherical.lat.deg), depth + 1))
    if isinstance(v, symx.SymReal):
        return ('sym', v.t.get_id())
    if isinstance(v, symx.SymBool):
        return ('symb', v.t.get_id())
    if hasattr(v, 'colnames'):                                 # astropy Table
        return ('table', tuple(v.colnames), tuple(fp(np.asarray(v[c]), depth + 1) if v[c].dtype.kind != 'U' else tuple(v[c])
                                                  for c in v.colnames))
    if callable(v) and not isinstance(v, type):
        return ('callable', getattr(v, '__name__', repr(v)))
    return ('v', repr(v))


def ids(v, depth=0, out=None):
    """identities of the mutable containers reachable from v"""
    from regions.core.core import Region
    from regions import PixCoord
    out = [] if out is None else out
    if depth > 6:
        return out
    if isinstance(v, Region):
        for p in list(v._params) + ['meta', 'visual']:
            x = getattr(v, p, None)
            out.append((p, id(x)))
            ids(x, depth + 1, out)
    elif isinstance(v, PixCoord):
        out.append(('x', id(v.x)))
        out.append(('y', id(v.y)))
    elif isinstance(v, dict):
        for k, x in v.items():
            if isinstance(x, (list, dict)):
                out.append((repr(k), id(x)))
    elif isinstance(v, (list, tuple)):
        for x in v:
            ids(x, depth + 1, out)
    return out


def module_state():
    import importlib
    from regions.core.registry import RegionsRegistry
    core = importlib.import_module('regions.io.ds9.core')
    crd = importlib.import_module('regions.io.crtf.read')
    crc = importlib.import_module('regions.io.crtf.core')
    iocore = importlib.import_module('regions.io.crtf.io_core')
    st = [('registry', tuple(sorted((k[0].__name__, k[1], k[2], id(v)) for k, v in RegionsRegistry.registry.items())))]
    for mod in (core, crd, crc, iocore):
        for name in sorted(vars(mod)):
            if name.startswith('__'):
                continue
            val = getattr(mod, name)
            if isinstance(val, (dict, list, tuple, set, frozenset)) and not isinstance(val, type):
                try:
                    st.append((mod.__name__ + '.' + name, repr(val)[:4000]))
                except Exception:  # noqa
                    pass
    lang = getattr(getattr(crd, '_CRTFRegionParser', None), 'language_spec', None)
    st.append(('language_spec', repr(lang)))
    return st


# --------------------------------------------------------------------------
# pool of concrete regions + WCS
# --------------------------------------------------------------------------
def make_wcs():
    from astropy.wcs import WCS
    w = WCS(naxis=2)
    w.wcs.ctype = ['RA---TAN', 'DEC--TAN']
    w.wcs.crval = [10.0, 20.0]
    w.wcs.crpix = [50.0, 40.0]
    th = np.deg2rad(35.0)
    sc = 2e-4
    w.wcs.cd = [[-sc * np.cos(th), sc * np.sin(th)], [sc * np.sin(th), sc * np.cos(th)]]
    return w


def pool():
    import regions as R
    from regions import PixCoord, RegionMeta, RegionVisual
    from astropy.coordinates import SkyCoord
    M = lambda **k: RegionMeta({'label': 'lab', 'tag': ['t1', 't2'], **k})
    V = lambda **k: RegionVisual({'color': 'red', 'linewidth': 2, **k})
    c = SkyCoord(10.001, 20.002, unit='deg', frame='icrs')
    g = SkyCoord(120.0, -5.0, unit='deg', frame='galactic')
    P = {}
    P['circle'] = R.CirclePixelRegion(PixCoord(30.25, 41.5), 4.75, meta=M(include=False), visual=V())
    P['ellipse'] = R.EllipsePixelRegion(PixCoord(33.0, 20.5), 8.5, 3.25, angle=0.6 * u.rad, meta=M(), visual=V(dash=True))
    P['rectangle'] = R.RectanglePixelRegion(PixCoord(10.0, 12.0), 5.5, 2.5, angle=200 * u.deg, meta=M(include=0), visual=V())
    P['polygon'] = R.PolygonPixelRegion(PixCoord([1.0, 9.5, 4.0, 0.5], [2.0, 3.0, 11.0, 7.5]), meta=M(), visual=V())
    P['regpoly'] = R.RegularPolygonPixelRegion(PixCoord(20.0, 20.0), 5, 6.0, angle=12 * u.deg, meta=M(), visual=V())
    P['point'] = R.PointPixelRegion(PixCoord(5.0, 6.0), meta=M(), visual=V(symbol='x', symsize=7))
    P['text'] = R.TextPixelRegion(PixCoord(7.0, 8.0), 'hello world', meta=M(), visual=V(rotation=30.0, fontsize=12))
    P['line'] = R.LinePixelRegion(PixCoord(1.0, 2.0), PixCoord(8.0, 5.5), meta=M(), visual=V())
    P['annulus-circle'] = R.CircleAnnulusPixelRegion(PixCoord(25.0, 25.0), 3.0, 6.5, meta=M(include=False), visual=V())
    P['annulus-ellipse'] = R.EllipseAnnulusPixelRegion(PixCoord(25.0, 25.0), 3.0, 7.0, 2.0, 5.0, angle=40 * u.deg, meta=M(), visual=V())
    P['annulus-rectangle'] = R.RectangleAnnulusPixelRegion(PixCoord(25.0, 25.0), 3.0, 7.0, 2.0, 5.0, angle=40 * u.deg, meta=M(), visual=V())
    P['compound'] = R.CirclePixelRegion(PixCoord(3.0, 3.0), 2.0, meta=M()) | R.RectanglePixelRegion(PixCoord(4.0, 4.0), 3.0, 2.0)
    P['sky-circle'] = R.CircleSkyRegion(c, 3.5 * u.arcsec, meta=M(include=False), visual=V())
    P['sky-ellipse'] = R.EllipseSkyRegion(c, 6 * u.arcsec, 0.05 * u.arcmin, angle=0.5 * u.rad, meta=M(), visual=V())
    P['sky-rectangle'] = R.RectangleSkyRegion(g, 6 * u.arcsec, 3 * u.arcsec, angle=25 * u.deg, meta=M(), visual=V())
    P['sky-polygon'] = R.PolygonSkyRegion(SkyCoord([10.0, 10.002, 10.001], [20.0, 20.0, 20.002], unit='deg'), meta=M(), visual=V())
    P['sky-point'] = R.PointSkyRegion(c, meta=M(), visual=V())
    P['sky-text'] = R.TextSkyRegion(c, 'sky text', meta=M(), visual=V(rotation=15.0))
    P['sky-line'] = R.LineSkyRegion(c, SkyCoord(10.003, 20.001, unit='deg'), meta=M(), visual=V())
    P['sky-annulus-circle'] = R.CircleAnnulusSkyRegion(c, 2 * u.arcsec, 5 * u.arcsec, meta=M(), visual=V())
    P['sky-annulus-ellipse'] = R.EllipseAnnulusSkyRegion(c, 2 * u.arcsec, 5 * u.arcsec, 1 * u.arcsec, 3 * u.arcsec, angle=10 * u.deg,
                                                         meta=M(), visual=V())
    P['sky-compound'] = R.CircleSkyRegion(c, 3 * u.arcsec, meta=M()) & R.CircleSkyRegion(c, 5 * u.arcsec)
    # regions as a DS9 parse hands them out (default_style='ds9'), with the colour DS9 calls green
    from regions import Regions as _Regs
    parsed = _Regs.parse('image\ncircle(11,21,5) # color=green width=2 text={from ds9}\nannulus(30,30,4,8) # color=green\n', format='ds9')
    P['ds9-parsed-circle'] = parsed[0]
    P['ds9-parsed-annulus'] = parsed[1]
    # CRTF spectral / polarisation metadata: containers whose ELEMENT TYPES must survive serialisation too
    P['sky-circle-spectral'] = R.CircleSkyRegion(c, 3.5 * u.arcsec, meta=RegionMeta({'label': 'lab', 'range': [1.42 * u.GHz, 1.43 * u.GHz],
                                                                                 'corr': ['I', 'Q'], 'restfreq': '1.42GHz', 'veltype': 'RADIO',
                                                                                 'frame': 'TOPO'}), visual=V())
    return P


def _is_pix(r):
    from regions.core.core import PixelRegion
    return isinstance(r, PixelRegion)


def operations():
    """name -> function(region, env) (env: wcs, coords, image, other region)"""
    import regions as R
    from regions import PixCoord, Regions
    ops = {}
    ops['contains-scalar'] = lambda r, e: r.contains(e['pc']) if _is_pix(r) else r.contains(e['sc'], e['wcs'])
    ops['contains-array'] = lambda r, e: r.contains(e['pcs']) if _is_pix(r) else r.contains(e['scs'], e['wcs'])
    ops['in-operator'] = lambda r, e: (e['pc'] in r) if _is_pix(r) else None
    ops['area'] = lambda r, e: r.area if _is_pix(r) else None
    ops['bounding_box'] = lambda r, e: r.bounding_box if _is_pix(r) else None
    ops['to_mask-center'] = lambda r, e: r.to_mask(mode='center') if _is_pix(r) else None
    ops['to_mask-subpixels'] = lambda r, e: r.to_mask(mode='subpixels', subpixels=3) if _is_pix(r) else None
    ops['to_mask-exact'] = lambda r, e: r.to_mask(mode='exact') if _is_pix(r) else None
    ops['convert'] = lambda r, e: r.to_sky(e['wcs']) if _is_pix(r) else r.to_pixel(e['wcs'])
    ops['convert-roundtrip'] = lambda r, e: (r.to_sky(e['wcs']).to_pixel(e['wcs']) if _is_pix(r)
                                             else r.to_pixel(e['wcs']).to_sky(e['wcs']))
    ops['rotate'] = lambda r, e: r.rotate(PixCoord(2.0, 3.0), 33 * u.deg) if _is_pix(r) else None
    ops['copy'] = lambda r, e: r.copy()
    ops['copy-changes'] = lambda r, e: r.copy(meta={'label': 'z'})
    ops['and'] = lambda r, e: r & (e['other_pix'] if _is_pix(r) else e['other_sky'])
    ops['or'] = lambda r, e: (e['other_pix'] if _is_pix(r) else e['other_sky']) | r
    ops['xor'] = lambda r, e: r ^ (e['other_pix'] if _is_pix(r) else e['other_sky'])
    ops['eq'] = lambda r, e: (r == r.copy(), r != (e['other_pix'] if _is_pix(r) else e['other_sky']))
    ops['repr-str'] = lambda r, e: (repr(r), str(r))
    ops['as_artist'] = lambda r, e: type(r.as_artist(origin=(1, 2))).__name__ if _is_pix(r) else None
    ops['mask-apply'] = lambda r, e: _mask_apply(r, e) if _is_pix(r) else None
    ops['parse-foreign-fits-table'] = lambda r, e: fp(Regions.parse(e['fits_table'], format='fits'))
    ops['mask-apply-foreign-layout'] = lambda r, e: _mask_apply_layouts(r, e) if _is_pix(r) else None
    for fmt, kws in (('ds9', [{}, {'precision': 3}]), ('crtf', [{}, {'coordsys': 'galactic', 'fmt': '.3f', 'radunit': 'arcsec'}]),
                     ('fits', [{}])):
        for i, kw in enumerate(kws):
            ops[f'serialize-{fmt}-{i}'] = functools.partial(_ser, fmt, kw)
            ops[f'serialize-list-{fmt}-{i}'] = functools.partial(_ser_list, fmt, kw)
            ops[f'write-{fmt}-{i}'] = functools.partial(_write, fmt, kw)
    return ops


def _mask_apply(r, e):
    mk = r.to_mask(mode='center')
    img = e['image']
    return (mk.to_image(img.shape), mk.cutout(img), mk.multiply(img), mk.get_values(img))


def _mask_apply_layouts(r, e):
    """mask application on images in other memory layouts: big-endian (what astropy.io.fits hands out), Fortran order,
    a read-only array and a strided view -- the watch list holds them all"""
    mk = r.to_mask(mode='center')
    out = []
    for key in ('image_be', 'image_f', 'image_ro', 'image_strided'):
        img = e[key]
        out.append((mk.cutout(img), mk.cutout(img, fill_value=-1.0), mk.multiply(img), mk.get_values(img), mk.to_image(img.shape)))
    return out


def _ser(fmt, kw, r, e):
    return r.serialize(format=fmt, **kw)


def _ser_list(fmt, kw, r, e):
    from regions import Regions
    return Regions([r, e['other_pix'] if _is_pix(r) else e['other_sky'], r]).serialize(format=fmt, **kw)


def _write(fmt, kw, r, e):
    d = tempfile.mkdtemp(prefix='vf-c13-')
    try:
        path = os.path.join(d, 'out.' + {'ds9': 'reg', 'crtf': 'crtf', 'fits': 'fits'}[fmt])
        r.write(path, format=fmt, **kw)
        with open(path, 'rb') as f:
            data = f.read()
        return len(data) if fmt == 'fits' else data
    finally:
        import shutil
        shutil.rmtree(d, ignore_errors=True)


EXPECTED_ERRORS = (NotImplementedError, ValueError, KeyError, TypeError, AttributeError)


def frame_case(kind):
    """every operation on region `kind`: inputs bit-for-bit unchanged, module state unchanged,
    a second call returns an equal result"""
    t0 = __import__('time').time()
    res = CaseResult(name=f'frame/{kind}', paths=1, obligations=0, nontrivial=0, violations=[], known=[], inconclusive=[],
                     vacuity=1, samples=[], safety=0, exc_paths=0, notes=[])
    from regions import PixCoord
    from astropy.coordinates import SkyCoord
    from vf import solve
    ran = 0
    with warnings.catch_warnings():
        warnings.simplefilter('ignore')
        for opname, op in operations().items():
            P = pool()
            r = P[kind]
            env = {'wcs': make_wcs(), 'pc': PixCoord(30.0, 40.0), 'pcs': PixCoord(np.array([1.0, 30.0, 25.0]), np.array([2.0, 41.0, 30.0])),
                   'sc': SkyCoord(10.0005, 20.001, unit='deg'), 'scs': SkyCoord([10.0, 10.001], [20.0, 20.002], unit='deg'),
                   'image': np.arange(60 * 50, dtype=float).reshape(60, 50), 'other_pix': P['line'] if kind != 'line' else P['circle'],
                   'other_sky': P['sky-point'] if kind != 'sky-point' else P['sky-circle']}
            from astropy.table import QTable
            tb = QTable()
            tb['SHAPE'] = ['CIRCLE', '!Circle', 'Box']
            tb['X'] = [[10.0, 0.0], [12.0, 0.0], [14.0, 0.0]] * u.pix
            tb['Y'] = [[20.0, 0.0], [22.0, 0.0], [24.0, 0.0]] * u.pix
            tb['R'] = [[3.0, 0.0], [4.0, 0.0], [5.0, 6.0]] * u.pix
            env['fits_table'] = tb
            base_img = np.arange(60 * 50, dtype=float).reshape(60, 50)
            env['image_be'] = base_img.astype('>f8')
            env['image_f'] = np.asfortranarray(base_img)
            env['image_ro'] = base_img.copy()
            env['image_ro'].flags.writeable = False
            env['image_strided'] = np.arange(120 * 100, dtype=float).reshape(120, 100)[::2, ::2]
            watch = {'region': r, 'other_pix': env['other_pix'], 'other_sky': env['other_sky'], 'pc': env['pc'], 'pcs': env['pcs'],
                     'image': env['image'], 'wcs_cd': env['wcs'].wcs.cd.copy(), 'wcs_crval': env['wcs'].wcs.crval.copy(),
                     'image_be': env['image_be'], 'image_f': env['image_f'], 'image_strided': env['image_strided'],
                     'image_strided_parent': env['image_strided'].base, 'fits_table': env['fits_table']}
            before = {k: fp(v) for k, v in watch.items()}
            before_ids = {k: ids(v) for k, v in watch.items()}
            mod0 = module_state()
            try:
                out1 = op(r, env)
                err1 = None
            except EXPECTED_ERRORS as ex:
                out1, err1 = None, type(ex).__name__
            watch['wcs_cd'] = env['wcs'].wcs.cd.copy()
            watch['wcs_crval'] = env['wcs'].wcs.crval.copy()
            after = {k: fp(v) for k, v in watch.items()}
            after_ids = {k: ids(v) for k, v in watch.items()}
            ran += 1
            res['obligations'] += 3
            bad = [k for k in before if before[k] != after[k] or before_ids[k] != after_ids[k]]
            if bad:
                _viol(res, kind, opname, f'input(s) {bad} changed', key=_known_key(kind, opname, 'mutate'))
            if module_state() != mod0:
                _viol(res, kind, opname, 'module-level state changed')
            try:
                out2 = op(r, env)
                err2 = None
            except EXPECTED_ERRORS as ex:
                out2, err2 = None, type(ex).__name__
            if err1 != err2 or fp(out1) != fp(out2):
                _viol(res, kind, opname, f'second call differs from the first ({err1} vs {err2})', key=_known_key(kind, opname, 'repeat'))
            if len(res['samples']) < 3:
                res['samples'].append({'case': f'frame/{kind}', 'operation': opname, 'first_call': (err1 or str(fp(out1))[:120]),
                                       'inputs_unchanged': not bad})
    res['nontrivial'] = ran
    res['wall_s'] = round(__import__('time').time() - t0, 2)
    res['stats'] = solve.Stats().as_dict()
    return res


def _known_key(kind, opname, what):
    if opname.startswith(('serialize-crtf', 'serialize-list-crtf', 'write-crtf')):
        return 'C13:crtf:include-popped'
    return None


def _viol(res, kind, opname, what, key=None):
    e = {'obligation': f'{opname}: {what}', 'replayed_failures': [f'{opname}: {what}'], 'inputs': {'region': kind, 'operation': opname},
         'exception': None, 'case': res['name'], 'found_by': 'executed frame condition on the real library'}
    kf = chk.KNOWN.match('C13', {key}, [opname], res['name']) if key else None
    if kf is not None:
        e['known'] = kf
        if not any(x.get('known', {}).get('key') == kf.get('key') for x in res['known']):
            res['known'].append(e)
    else:
        e['replay'] = chk._replay_path('C13', res['name'], e['inputs'], e['obligation'])
        res['violations'].append(e)


# --------------------------------------------------------------------------
# order independence: result of B after A == result of B in a fresh process
# --------------------------------------------------------------------------
DS9_TEXTS = [
    'image\ncircle(10,20,3)\n-box(5,6,3,4,30) # text={x y} color=red\n',
    'fk5\npolygon(10:00:00,+20:00:00,10:00:10,+20:00:00,10:00:05,+20:02:00)\n',
    'icrs\npolygon(10.0,20.0,10.1,20.0,10.05,20.1)\n',
    'galactic; ellipse(120.0,-5.0,3",2",30) # tag={a} tag={b}\n',
    'image; polygon(1,2,3,4,5,0) ; point(3,4) # point=x 5\n',
    'global color=blue dashlist=8 3 width=2\nfk5\ncircle(10:00:00.0,+20:00:00,30") # include=0\n',
    'fk4\nannulus(150.0,2.0,10",20",30")\ntext(150.0,2.0) # text={hello}\n',
    'j2000\nline(10.0,20.0,10.1,20.1) # line=1 0\nellipse(10.0,20.0,2",1",4",2",15)\n',
    'fk5\npolygon(10:00:00,+20:00:00,10:00:10,+20:00:00,10:00:05,+20:02:00)\npolygon(10:00:00,+21:00:00,10:00:10,+21:00:00,10:00:05,+21:02:00)\n',
]
CRTF_TEXTS = [
    '#CRTFv0\ncircle[[10deg, 20deg], 3arcsec], coord=J2000, color=green\n',
    '#CRTFv0\nglobal coord=GALACTIC, linewidth=2\n-ellipse[[120deg, -5deg], [4arcsec, 2arcsec], 30deg], label="e1"\n',
    '#CRTFv0\nann rotbox[[10pix, 20pix], [5pix, 3pix], 45deg], coord=image\n',
    '#CRTFv0\npoly[[1pix,2pix],[3pix,4pix],[5pix,0pix]], coord=image\nsymbol[[3pix,4pix], .], symsize=3\n',
    '#CRTFv0\nannulus[[10:00:00.0, +20.00.00.0], [3arcsec, 6arcsec]], coord=J2000\n',
]


def _parse_fp(fmt, text):
    from regions import Regions
    with warnings.catch_warnings():
        warnings.simplefilter('ignore')
        try:
            return fp(Regions.parse(text, format=fmt))
        except Exception as ex:  # noqa
            return ('error', type(ex).__name__, str(ex)[:100])


def _convert_pool():
    """regions for the conversion histories: sky regions whose centres have the same numbers in different frames / equinoxes"""
    import regions as R
    from regions import PixCoord
    from astropy.coordinates import SkyCoord, FK5, FK4
    out = {}
    for nm, fr in (('icrs', 'icrs'), ('fk5-j2000', FK5(equinox='J2000')), ('fk5-j1950', FK5(equinox='J1950')), ('fk4-b1950', FK4(equinox='B1950')),
                   ('galactic', 'galactic')):
        c = SkyCoord(10.001, 20.002, unit='deg', frame=fr)
        out[f'sky-circle/{nm}'] = R.CircleSkyRegion(c, 3.5 * u.arcsec)
        out[f'sky-ellipse/{nm}'] = R.EllipseSkyRegion(c, 6 * u.arcsec, 3 * u.arcsec, angle=25 * u.deg)
    out['pix-circle'] = R.CirclePixelRegion(PixCoord(30.25, 41.5), 4.75)
    out['pix-ellipse'] = R.EllipsePixelRegion(PixCoord(30.25, 41.5), 8.5, 3.25, angle=0.6 * u.rad)
    return out


def _serialize_variants():
    out = []
    for fmt, kws in (('ds9', [{}, {'precision': 2}]),
                     ('crtf', [{}, {'radunit': 'arcsec'}, {'radunit': 'arcmin', 'fmt': '.6f'}, {'fmt': '.2f'},
                               {'coordsys': 'galactic'}, {'coordsys': 'image', 'radunit': 'pix'}]),
                     ('fits', [{}])):
        for kw in kws:
            out.append((fmt, kw))
    return out


def _ser_fp(fmt, kw, kind):
    from regions import Regions
    with warnings.catch_warnings():
        warnings.simplefilter('ignore')
        P = pool()
        try:
            return fp(Regions([P[kind]]).serialize(format=fmt, **kw))
        except Exception as ex:  # noqa
            return ('error', type(ex).__name__)


def _fork(fn):
    """run fn() in a forked child (fresh copy of the interpreter state at this point)"""
    import pickle
    r, w = os.pipe()
    pid = os.fork()
    if pid == 0:
        os.close(r)
        try:
            data = pickle.dumps(fn())
        except BaseException as ex:  # noqa
            data = pickle.dumps(('child-error', repr(ex)))
        with os.fdopen(w, 'wb') as f:
            f.write(data)
        os._exit(0)
    os.close(w)
    with os.fdopen(r, 'rb') as f:
        data = f.read()
    os.waitpid(pid, 0)
    return pickle.loads(data)


def order_case(which):
    """B after A gives the same result as B first (each sequence in a fresh forked process)"""
    import time
    from vf import solve
    t0 = time.time()
    res = CaseResult(name=f'order/{which}', paths=1, obligations=0, nontrivial=0, violations=[], known=[], inconclusive=[],
                     vacuity=1, samples=[], safety=0, exc_paths=0, notes=[])
    if which in ('parse-ds9', 'parse-crtf'):
        fmt = which.split('-')[1]
        texts = DS9_TEXTS if fmt == 'ds9' else CRTF_TEXTS
        # also the bundled sample files
        ddir = os.path.join(REPO, 'regions', 'io', fmt, 'tests', 'data')
        for fn in sorted(os.listdir(ddir)):
            if fn.endswith('.reg') or fn.endswith('.crtf'):
                with open(os.path.join(ddir, fn)) as f:
                    texts = texts + [f.read()]
        fresh = [_fork(functools.partial(_parse_fp, fmt, t)) for t in texts]
        for i, a in enumerate(texts):
            def seq(a=a):
                _parse_fp(fmt, a)
                return [_parse_fp(fmt, b) for b in texts]
            after = _fork(seq)
            for j, (x, y) in enumerate(zip(after, fresh)):
                res['obligations'] += 1
                if x != y:
                    _viol(res, which, f'parse text #{j} after text #{i}', 'result differs from parsing it first in a fresh process')
        res['samples'].append({'case': res['name'], 'texts': len(texts), 'pairs': len(texts) ** 2})
    elif which == 'convert':
        # conversions through ONE WCS object: B after A gives what B gives first
        kinds = list(_convert_pool())

        def conv(w, k):
            r = _convert_pool()[k]
            try:
                return fp(r.to_pixel(w)) if not _is_pix(r) else fp(r.to_sky(w))
            except Exception as ex:  # noqa
                return ('error', type(ex).__name__, str(ex)[:100])

        def first():
            return [conv(make_wcs(), k) for k in kinds]            # a new WCS object for every conversion
        fresh = _fork(first)
        for a in kinds:
            def seq(a=a):
                w = make_wcs()
                conv(w, a)
                return [conv(w, k) for k in kinds]
            after = _fork(seq)
            for k, x, y in zip(kinds, after, fresh):
                res['obligations'] += 1
                if x != y:
                    _viol(res, which, f'convert {k} after converting {a} with the same WCS object', 'result differs from converting it first with a fresh WCS object')
        res['samples'].append({'case': res['name'], 'kinds': len(kinds), 'pairs': len(kinds) ** 2})
    else:
        variants = _serialize_variants()
        kinds = ['circle', 'ellipse', 'rectangle', 'polygon', 'annulus-circle', 'text', 'point', 'line', 'sky-circle', 'sky-ellipse',
                 'sky-rectangle', 'sky-annulus-circle', 'sky-polygon', 'sky-text']
        fresh = {}
        for (fmt, kw) in variants:
            fresh[(fmt, repr(kw))] = _fork(lambda fmt=fmt, kw=kw: [_ser_fp(fmt, kw, k) for k in kinds])
        for (fa, kwa) in variants:
            def seq(fa=fa, kwa=kwa):
                for k in kinds:
                    _ser_fp(fa, kwa, k)
                return {(fmt, repr(kw)): [_ser_fp(fmt, kw, k) for k in kinds] for (fmt, kw) in variants}
            after = _fork(seq)
            for key, lst in after.items():
                for k, x, y in zip(kinds, lst, fresh[key]):
                    res['obligations'] += 1
                    if x != y:
                        _viol(res, which, f'serialize {key} of {k} after serialising everything with {fa} {kwa}',
                              'result differs from serialising it first in a fresh process')
        res['samples'].append({'case': res['name'], 'variants': len(variants), 'kinds': len(kinds)})
    res['nontrivial'] = res['obligations']
    res['wall_s'] = round(time.time() - t0, 2)
    res['stats'] = solve.Stats().as_dict()
    return res


# --------------------------------------------------------------------------
# symbolic frame conditions: for ALL parameter values the inputs keep their terms
# --------------------------------------------------------------------------
def h_sym_frame(kind, m):
    from checks import C15, C02
    from regions import PixCoord
    C02.shims(m)
    reg, fin, fout = C15._mk(kind, m)
    q = PixCoord(m.real('qx'), m.real('qy'))
    dt = object if m.sym else float
    qs = PixCoord(np.array([m.real('q0x'), m.real('q1x')], dtype=dt), np.array([m.real('q0y'), m.real('q1y')], dtype=dt))
    other, _, _ = C15._mk('circle', m, 'o_')
    watch = {'region': reg, 'q': q, 'qs': qs, 'other': other}
    ops = {
        'contains': lambda: reg.contains(q), 'contains-array': lambda: reg.contains(qs), 'area': lambda: reg.area,
        'bounding_box': lambda: reg.bounding_box, 'rotate': lambda: reg.rotate(q, m.angle('alpha', 'deg')), 'copy': lambda: reg.copy(),
        'and': lambda: reg & other, 'xor': lambda: other ^ reg,
        'serialize-ds9': lambda: reg.serialize(format='ds9', precision=4),
        'serialize-crtf': lambda: reg.serialize(format='crtf', coordsys='image', fmt='.4f', radunit='pix'),
    }
    if kind == 'polygon':
        for k_ in ('contains-array', 'bounding_box', 'xor', 'serialize-crtf'):
            ops.pop(k_)
    for name, op in ops.items():
        before = {k: fp(v) for k, v in watch.items()}
        bid = {k: ids(v) for k, v in watch.items()}
        try:
            op()
        except EXPECTED_ERRORS:
            pass
        except symx.Inconclusive:
            continue
        after = {k: fp(v) for k, v in watch.items()}
        aid = {k: ids(v) for k, v in watch.items()}
        m.require(f'{name}: every input keeps its parameters (same symbolic terms, same containers)',
                  before == after and bid == aid,
                  key='C13:crtf:include-popped' if name == 'serialize-crtf' else None)


def harnesses(tier):
    P = functools.partial
    hs = []
    for k in ('circle', 'ellipse', 'rectangle', 'polygon', 'annulus-circle', 'point', 'line', 'text'):
        hs.append((f'symbolic-frame/{k}', P(h_sym_frame, k)))
    return hs


def cases(tier, seed):
    out = [(name, functools.partial(chk.run_case, 'C13', name, h, max_paths=1500)) for name, h in harnesses(tier)]
    for kind in pool():
        out.append((f'frame/{kind}', functools.partial(frame_case, kind)))
    for which in ('parse-ds9', 'parse-crtf', 'serialize', 'convert'):
        out.append((f'order/{which}', functools.partial(order_case, which)))
    return out


META = {
    'level': 'model_checking',
    'functions_encoded': ['symbolic frame conditions: contains / area / bounding_box / rotate / copy / & ^ / serialize(ds9, crtf) of 8 pixel classes',
                          'executed frame conditions: 30+ operations x 22 region kinds (incl. sky, compound) on the real library',
                          'order independence: DS9 / CRTF parse and DS9/CRTF/FITS serialise variants, each sequence in a fresh forked interpreter'],
    'bounds': {'quick': {'symbolic': 'all real parameter values, one call of each of 10 operations per class',
                         'executed': 'one concrete pool (23 regions, one with CRTF spectral metadata), every operation twice',
                         'histories': 'length 2 (A then B) over all pairs of 29 DS9 texts / 12 CRTF texts / 9 serialiser option sets x 14 regions / 12 conversions through one WCS object; '
                                      'longer histories follow from the frame invariant (inputs + module state unchanged by every operation)'}},
    'outside_claim': ['state outside the fingerprint (astropy caches)', 'histories longer than 2 are covered by the invariant argument only',
                      'the executed frame conditions and the order-independence differential are enumerated executions of the real '
                      'library (supplementary); the solver-decided part is the symbolic frame condition'],
    'stubs': ['kernels from .pyx (symbolic part)'],
    'assumptions': ['fingerprint = parameter values bit-for-bit, dict contents, identities of mutable containers, module-level tables of '
                    'regions.io.ds9.core / regions.io.crtf.{core,read,io_core} and RegionsRegistry.registry'],
    'rule': 'evaluations = SMT queries + executed (operation, region) pairs + ordered pairs of parse/serialise calls; '
            'distinct_nontrivial = distinct obligations (symbolic) + distinct executed pairs',
}
