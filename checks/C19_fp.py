"""IEEE-754 lemma for from_float: for doubles x on the 1/8-pixel lattice with |x| < 2^49 the
float computation x + 0.5 is exact, hence floor/ceil(x + 0.5) computed in doubles equals the
real-number floor/ceil that the symbolic check reasons about."""
import time

import z3

from vf import chk, solve


def case(tier):
    t0 = time.time()
    res = chk.CaseResult(name='from_float/ieee-lemma', paths=1, obligations=0, nontrivial=0, violations=[], known=[],
                         inconclusive=[], vacuity=0, samples=[], safety=0, exc_paths=0, notes=[])
    solve.STATS = solve.Stats()
    F = z3.Float64()
    x = z3.FP('x', F)
    rne = z3.RNE()
    half = z3.FPVal(0.5, F)
    eight = z3.FPVal(8.0, F)
    lim = z3.FPVal(2.0 ** 49, F)
    x8 = z3.fpMul(rne, x, eight)
    lattice = z3.And(z3.Not(z3.fpIsNaN(x)), z3.Not(z3.fpIsInf(x)), z3.fpLT(z3.fpAbs(x), lim),
                     z3.fpEQ(z3.fpRoundToIntegral(rne, x8), x8))
    s = z3.fpAdd(rne, x, half)
    # exactness of the addition: (x + 0.5) - 0.5 == x  and  (x+0.5)*8 is integral and = x*8 + 4
    goal = z3.And(z3.fpEQ(z3.fpSub(rne, s, half), x),
                  z3.fpEQ(z3.fpMul(rne, s, eight), z3.fpAdd(rne, x8, z3.FPVal(4.0, F))))
    # vacuity twin
    r0, _ = solve.check_sat([lattice], 60000)
    if r0 == 'sat':
        res['vacuity'] = 1
    res['obligations'] = 1
    res['nontrivial'] = 1
    r, m = solve.check_sat([lattice, z3.Not(goal)], 240000 if tier == 'quick' else 900000)
    res['samples'].append({'case': 'from_float/ieee-lemma', 'obligation': 'x on 1/8 lattice, |x|<2^49 => fl(x+0.5) exact',
                           'verdict': r})
    if r == 'sat':
        res['inconclusive'].append(f'IEEE lemma has a counter-model {m}: the real-number model of from_float is not '
                                   'justified on the stated lattice')
    elif r != 'unsat':
        res['inconclusive'].append(f'IEEE lemma: solver {r}')
    res['wall_s'] = round(time.time() - t0, 3)
    res['stats'] = solve.STATS.as_dict()
    return res
