#!/bin/bash
# usage: tools/seed_verify.sh <PROP> <agent-out-dir/N> <seed-id>
# Confirms in a scratch worktree that (1) demo passes on the clean tree, (2) patch applies,
# (3) the existing test suite still has 1010 passes, (4) demo fails with the patch.
# On success stores /verif/seeded/<seed-id>/{patch.diff,demo.py,note.txt,meta.json}.
set -u
PROP=$1; SRC=$2; ID=$3
WT=/tmp/seedv/$ID
rm -rf $WT; mkdir -p /tmp/seedv
/verif/tools/mkworktree.sh $WT >/dev/null || exit 2
cd $WT
cp $SRC/demo.py $WT/_demo.py
/venv/bin/python _demo.py >/tmp/seedv/$ID.clean.log 2>&1; C=$?
git apply $SRC/patch.diff || { echo "PATCH FAILED"; git -C /repo worktree remove --force $WT; exit 2; }
/venv/bin/python _demo.py >/tmp/seedv/$ID.patched.log 2>&1; P=$?
T=$(/venv/bin/python -m pytest -q -p no:cacheprovider --timeout=900 --continue-on-collection-errors regions docs 2>&1 | tail -1)
cd /; git -C /repo worktree remove --force $WT
echo "$ID clean_exit=$C patched_exit=$P tests: $T"
if [ $C -eq 0 ] && [ $P -ne 0 ] && echo "$T" | grep -q "1010 passed"; then
  mkdir -p /verif/seeded/$ID
  cp $SRC/patch.diff $SRC/demo.py /verif/seeded/$ID/
  cp $SRC/note.txt /verif/seeded/$ID/note.txt 2>/dev/null
  python3 - "$PROP" "$ID" "$T" <<'PY'
import json, sys
prop, sid, t = sys.argv[1:4]
note = open(f'/verif/seeded/{sid}/note.txt').read() if True else ''
json.dump({'property': prop, 'id': sid, 'origin': 'fresh sub-agent given only the property text and a scratch worktree',
           'needs_to_manifest': note.strip(), 
           'confirmed': {'demo_on_clean_tree': 'exit 0', 'demo_with_patch': 'non-zero exit', 'existing_tests_with_patch': t.strip(),
                         'how': 'tools/seed_verify.sh: scratch worktree outside /repo and /verif, removed afterwards'},
           'check_result': 'pending'}, open(f'/verif/seeded/{sid}/meta.json', 'w'), indent=1)
PY
  echo "STORED $ID"
else
  echo "REJECTED $ID"
fi
