#!/usr/bin/env python3
"""Mutant self-test: apply each patch under mutants/<prop>/ (or seeded/<id>/patch.diff given
with --seeded) to /repo, run the property's check, expect exit 1, and restore /repo.
Usage: tools/selftest.py C01 [name-substring] [--tier quick] [--tree DIR]
With --tree DIR the patches are applied to the scratch worktree DIR (outside /repo and /verif) and the check is pointed at it
through VERIF_REPO, so that /repo is not touched (use while another run needs /repo)."""
import glob, os, subprocess, sys, time
HERE = os.path.dirname(os.path.dirname(os.path.abspath(__file__)))
args = [a for a in sys.argv[1:] if not a.startswith('--')]
tier = 'quick'
if '--tier' in sys.argv:
    tier = sys.argv[sys.argv.index('--tier') + 1]
    args = [a for a in args if a != tier]
tree = '/repo'
if '--tree' in sys.argv:
    tree = sys.argv[sys.argv.index('--tree') + 1]
    args = [a for a in args if a != tree]
prop = args[0]
sub = args[1] if len(args) > 1 else ''
patches = sorted(glob.glob(os.path.join(HERE, 'mutants', prop, '*.patch')))
patches += sorted(p for p in glob.glob(os.path.join(HERE, 'seeded', '*', 'patch.diff'))
                  if prop in open(os.path.join(os.path.dirname(p), 'meta.json')).read())
ok = True
assert subprocess.run(['git', '-C', tree, 'status', '--porcelain'], capture_output=True, text=True).stdout.strip() == '', tree + ' dirty'
for p in patches:
    if sub not in p:
        continue
    t0 = time.time()
    r = subprocess.run(['git', '-C', tree, 'apply', p])
    if r.returncode:
        print('PATCH-FAILED', p); ok = False; continue
    try:
        r = subprocess.run([os.path.join(HERE, 'check'), prop, '--tier', tier, '--no-evidence'], capture_output=True, text=True, env={**os.environ, 'VERIF_REPO': tree})
    finally:
        subprocess.run(['git', '-C', tree, 'checkout', '--', '.'])
    viol = [l for l in r.stdout.splitlines() if l.startswith('VIOLATION')]
    status = 'CAUGHT' if r.returncode == 1 and viol else f'MISSED(exit {r.returncode})'
    if status != 'CAUGHT':
        ok = False
    print(f'{status:16s} {os.path.relpath(p, HERE)}  [{round(time.time()-t0,1)}s]  {r.stdout.splitlines()[-1][:160] if r.stdout else r.stderr[-200:]}')
sys.exit(0 if ok else 1)
