# executed by mkmanifest.py
claim('C01',
      'Bounded symbolic check of the real contains() code against independent geometric definitions: for every path of '
      'the real Python code the solver shows that no real-valued centre/size/angle/query position violates '
      '"strictly inside => member, strictly outside => not member"; discrete structure (class, include flag, query '
      'container, vertex count) is enumerated within stated bounds.',
      'Real-number model of floats (rounding next to the boundary is outside the claim); z3 5.1; polygon kernel is taken '
      'from the .pyx source by the pyxsym interpreter (validated against the compiled extension on every run).',
      'symbolic execution of the real Python + SMT (z3 NRA), counterexamples replayed on the real library',
      'DESIGN.md section 5 C01')
