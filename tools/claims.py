# executed by mkmanifest.py
claim('C01',
      'Bounded symbolic check of the real contains() code against independent geometric definitions: for every path of '
      'the real Python code the solver shows that no real-valued centre/size/angle/query position violates '
      '"strictly inside => member, strictly outside => not member"; discrete structure (class, include flag, query '
      'container, vertex count) is enumerated within stated bounds.',
      'Real-number model of floats (rounding next to the boundary is outside the claim); z3 5.1; polygon kernel is taken '
      'from the .pyx source by the pyxsym interpreter (validated against the compiled extension on every run).',
      'symbolic execution of the real Python + SMT (z3 NRA), counterexamples replayed on the real library',
      'DESIGN.md section 11.4 (as built) and section 5 C01 (plan)')
claim('C19',
      'Bounded symbolic check of the real RegionBoundingBox code: all corners, the image shape and a probe pixel are '
      'unbounded symbolic integers; union/intersection/overlap-slice results are compared with pixel-set semantics by '
      'the solver on every path; from_float over the reals plus an IEEE-754 (QF_FP) lemma that x+0.5 is exact on the '
      '1/8 lattice below 2^49.',
      'Python ints as mathematical integers; z3 LIA/LRA; builtin max/min replaced by the equivalent ite term.',
      'symbolic execution of the real Python + SMT (z3 LIRA, QF_FP lemma)',
      'DESIGN.md section 11.4 (as built) and section 5 C19 (plan)')
claim('C04',
      'Bounded symbolic check of the real bounding_box code of every pixel class: enclosure (every point the '
      'independent membership oracle puts strictly inside lies within the pixel-edge extent) and minimality (a witness '
      'boundary point reaches each of the four border rows/columns) are proved by the solver for all real parameters '
      'and angles; annulus box == outer box, compound box == hull of operand boxes.',
      'Real-number model of floats; floor/ceil by their axioms with integer-relaxation; polygons bounded in vertex count.',
      'symbolic execution of the real Python + SMT (z3 NRA/LIRA)',
      'DESIGN.md section 11.4 (as built) and section 5 C04 (plan)')
claim('C20',
      'Bounded symbolic check of the real PixCoord code: elements are unbounded symbolic reals, shapes/index '
      'expressions are enumerated; broadcast, indexing, +/-, separation, rotation (isometry, additive composition, '
      'fixed centre) are proved elementwise by the solver; sky conversion is checked for argument forwarding against an '
      'opaque invertible WCS stub.',
      'Real-number model; angles as unit-circle atoms; astropy SkyCoord/WCS replaced by a recording stub.',
      'symbolic execution of the real Python + SMT (z3 NRA)',
      'DESIGN.md section 11.4 (as built) and section 5 C20 (plan)')
claim('C02',
      'Bounded symbolic check of the real to_mask code with the Cython kernels interpreted from their .pyx source: for '
      'every feasible box shape (enumerated by the solver) and every pixel, the mask value is shown to lie between the '
      'fraction of sub-sample centres strictly inside and not strictly outside the shape, for all real centres / sizes / '
      'angles and all positions of the shape on the pixel grid; mask.bbox == region.bounding_box, data.shape == '
      'bbox.shape; mode validation and NotImplementedError for unsupported pairs.  Ellipse: plumbing + kernel lemma only.',
      'Real-number model; boxes <= 3x3 and subpixels <= 2 (quick) / <= 4 (thorough); kernels from source (validated '
      'against the compiled extension each run); ellipse end-to-end masks outside (solver unknown).',
      'symbolic execution of the real Python + AST interpretation of the .pyx kernels + SMT (z3 NRA, int relaxation)',
      'DESIGN.md section 11.4 (as built) and section 5 C02 (plan)')
claim('C15',
      'Bounded symbolic check of rotate() of every pixel class (arbitrary pivot, arbitrary angle as a unit-circle atom): '
      'class/meta preserved and not aliased, area equal, rotating back restores every parameter, original untouched, '
      'rotated parameters equal the rigid image, membership of R p in the rotated region vs the independent oracle at p '
      '(directly for circle/rectangle/annuli/compound, via proved parameter image + frame-invariance lemma for ellipses '
      'and polygons); integer translation shifts the bounding box by (K, L) (unbounded symbolic integers) and leaves '
      'every mask cell term unchanged.',
      'Real-number model; kernels from the .pyx source; masks bounded to boxes <= 3x3, centre mode (quick).',
      'symbolic execution of the real Python + SMT (z3 NRA / LIRA with integer windows)',
      'DESIGN.md section 11.4 (as built) and section 5 C15 (plan)')
claim('C16',
      'Bounded symbolic check of Region.copy/__eq__/__ne__ over all classes with every numeric field of two independent '
      'instances symbolic: copy equals original and shares no mutable container (identity walk incl. nested lists, '
      'arrays, Quantities), == holds exactly when the documented rule holds (class, positions within np.allclose '
      'tolerance, other parameters exactly, meta, visual), symmetric away from the tolerance edge, unit re-expression '
      'of angles compares equal; Regions slices/copies are new lists under fixed edit sequences.',
      'Real-number model; sky coordinates concrete; one known finding (asymmetric tolerance of PixCoord.__eq__).',
      'symbolic execution of the real Python + SMT (z3 NRA)',
      'DESIGN.md section 11.4 (as built) and section 5 C16 (plan)')
claim('C17',
      'Every descriptor is driven through every constructor and through setattr: for ALL finite real sizes (symbolic) a '
      'value is accepted exactly when it is strictly positive and reads back identically, a rejected assignment leaves '
      'the object unchanged; non-finite doubles and a wrong-kind catalogue (12-18 values per parameter kind) are '
      'enumerated for all 18 classes; annulus inner<outer with symbolic sizes at construction and on assignment; '
      'RegionMeta/RegionVisual under 10 mutation entry points; Regions list mutators; RegionBoundingBox / RegionMask.',
      'Reals model for the symbolic part, enumeration for NaN/inf and wrong kinds; two open known findings '
      '(annulus order on assignment, text parameter deletable), three defects repaired by fix: commits.',
      'symbolic execution of the real validators + SMT (z3), plus exhaustive execution of the discrete invalid-value catalogue',
      'DESIGN.md section 11.4 (as built) and section 5 C17 (plan)')
claim('C13',
      'Frame condition: every public read-only / constructive operation leaves its inputs (parameters bit-for-bit, meta, '
      'visual, container identities), the image/coordinate arguments and the module-level parser tables unchanged, and a '
      'second call returns an equal result.  Decided symbolically (for all parameter values at once) for contains / area / '
      'bounding_box / rotate / copy / & ^ / DS9+CRTF serialisation of 8 pixel classes; executed on a 22-region pool for 35 '
      'operations incl. sky conversion, masks, artists, three formats; order independence of parse/serialise calls by '
      'running every ordered pair in a fresh forked interpreter.  Histories of any length follow from the invariant.',
      'The executed part is enumeration (supplementary), the solver decides the symbolic frame conditions; fingerprint '
      'defined in the evidence; state outside it (astropy caches) is outside the claim.',
      'symbolic frame-condition checking (z3 term identity per path) + executed frame conditions and pairwise order differential',
      'DESIGN.md section 11.4 (as built) and section 5 C13 (plan)')
claim('C05',
      'Bounded symbolic check of RegionMask.to_image / cutout / multiply / get_values: the box position is an unbounded '
      'symbolic integer pair (the solver enumerates every overlapping placement, all non-overlapping placements are one '
      'symbolic path), pixel values / weights / fill value are symbolic reals; every output cell is compared with the '
      'placement definition, None / empty exactly when no pixel is shared, view-vs-copy semantics, inputs unmodified.  '
      'dtype / fill interactions (int, float, Quantity x 0, finite, nan, inf) and images holding nan / +-inf cells (plain and as a view) executed over 56 box positions.',
      'Small shapes (image <= 2x3 quick / 3x3 thorough, mask <= 2x2 / 3x3); reals model; numpy dtype promotion only in the executed table.',
      'symbolic execution of the real Python + SMT (z3 LIRA) with solver-enumerated integer placements',
      'DESIGN.md section 11.4 (as built) and section 5 C05 (plan)')
claim('C08',
      'Bounded symbolic check of &, |, ^ and CompoundPixelRegion.contains against or/and/xor of the independent operand '
      'oracles (operands circle / ellipse / rectangle with arbitrary real parameters and angles; include flags on '
      'operands and on the compound; nesting to depth 3), annulus area = outer - inner for the three annulus classes; '
      'thorough tier: centre mask of a compound = operator applied to the operand masks on the union box, cell by cell.',
      'Reals model; positions on an operand boundary excepted; compound masks bounded to small operands.',
      'symbolic execution of the real Python + SMT (z3 NRA)',
      'DESIGN.md section 11.4 (as built) and section 5 C08 (plan)')
claim('C18',
      'Bounded symbolic check of as_artist of every pixel class with recording stand-ins for the matplotlib patch classes: '
      'the documented point set of the recorded patch (Circle / Ellipse / Rectangle-about-its-anchor / Polygon), shifted by '
      'the plot origin, is compared with the independent region oracle for every probe position, all real parameters, '
      'angles and origins; point/text/line positions; annulus path = outer outline + inner outline with negated signed '
      'area; visual-to-keyword translation and caller override; bounding-box rectangle.',
      'matplotlib rendering itself (Bezier approximation, transforms, contains_point) is outside; replays use real matplotlib.',
      'symbolic execution of the real Python with recording stubs + SMT (z3 NRA)',
      'DESIGN.md section 11.4 (as built) and section 5 C18 (plan)')
claim('C14',
      'Fault-schedule check of the three writers through Region.write / Regions.write with the destination-exists bit and '
      'the overwrite flag symbolic and a failing member injected at each position: on every path the recorded filesystem '
      'events satisfy "no open/writeto/remove/rename unless serialisation succeeded and (not exists or overwrite)", '
      'OSError when refused, written text == serialised text, FITS writeto receives the caller\'s flag.  Format '
      'identification for every path string (symbolic, <= 12 8-bit characters): exactly the documented suffixes, case '
      'insensitive, mutually exclusive, write-accepted => read-accepted, registry picks the accepting format.',
      'Filesystem and astropy FITS I/O are event-recording stubs (replays run in a real temporary directory); content '
      'sniffing / gzip / symlink semantics are outside.',
      'symbolic execution of the real Python over a symbolic fault schedule and symbolic path strings + SMT (z3)',
      'DESIGN.md section 11.4 (as built) and section 5 C14 (plan)')
claim('C06',
      'Bounded symbolic check of to_sky / to_pixel of every class against an opaque invertible WCS stub whose local scale '
      'and north direction are arbitrary (the 1-arcsec probe maps to a fresh symbolic pixel): pixel->sky->pixel and '
      'sky->pixel->sky restore class and every parameter exactly over the reals (sizes, angle, centre, vertices, text '
      'rotation), meta/visual incl. the include flag are carried as copies, and SkyRegion.contains equals the pixel '
      'image\'s contains at the converted position, for simple shapes, annuli, point/line/text and compounds.',
      'The WCS itself (projections, frames, distortion) is a stub: astropy.wcs is C code; regions\' arithmetic and '
      'bookkeeping are verified for every local scale and orientation.  One defect repaired (CompoundSkyRegion meta).',
      'symbolic execution of the real Python with a stub WCS + SMT (z3 NRA)',
      'DESIGN.md section 11.4 (as built) and section 5 C06 (plan)')
claim('C07',
      'Bounded symbolic check of sky->pixel conversion against an affine (tangent-plane) WCS stub with symbolic scale, '
      'rotation (unit-circle atom), parity and reference pixel: centre = WCS image of the sky centre, every length = '
      'angular size / local scale (1e-9 relative), width axis = (local north - 90 deg) turned by the sky angle (unit '
      'vectors, exact), circle boundary points at 0.999 / 1.001 of the radius inside / outside; circle to_sky.',
      'Stub = linearisation of an undistorted celestial WCS; curvature, distortion, other frames outside; proof guidance '
      'by a proved lemma on the probe length.',
      'symbolic execution of the real Python with an affine stub WCS + SMT (z3 NRA) with proved intermediate lemmas',
      'DESIGN.md section 11.4 (as built) and section 5 C07 (plan)')
claim('C12',
      'Bounded symbolic check of the FITS region-table serialiser and parser through the real astropy QTable: all '
      'coordinates, sizes, vertices are symbolic reals and component numbers symbolic integers; serialise -> parse returns '
      'the same classes with identical geometry (exactly, no formatting involved), the exclude flag, given components '
      'preserved and fresh ones distinct, unsupported / sky members skipped with a warning without disturbing the other '
      'rows, inputs unmodified, parse->serialise->parse fixed point; reader notations box / rectangle / rotrectangle.',
      'File layer (writeto / fits.open / QTable.read) outside (binary astropy I/O, see C14); lists <= 4 (quick) / 5; one '
      'open known finding (zero-padded polygon vertices), two defects repaired by fix: commits.',
      'symbolic execution of the real Python through astropy QTable with object payloads + SMT (z3)',
      'DESIGN.md section 11.4 (as built) and section 5 C12 (plan)')
claim('C09',
      'Bounded symbolic check of the DS9 serialiser and parser: for all ten DS9 shapes in the image frame every coordinate '
      'and size is symbolic (the decimal text written by the real writer is a token whose value is the true value rounded '
      'to the requested precision; the real parser - regexes, splitting, templates - runs on the real text), and the '
      'solver proves every parsed parameter within half a printed unit, same class, include sense, text/tags/flags, '
      'determinism, parse-serialise-parse fixed point, unsupported members skipped without altering the other lines; sky '
      'regions in five celestial frames with concrete coordinates; lists exercising global-line hoisting and mixed frames.',
      'Rotation angles and sky coordinates concrete (astropy float formatting); sizes / annulus gaps below 1.5 printed units '
      'excluded; lists <= 3; two defects repaired by fix: commits.',
      'symbolic execution of the real writer and parser with decimal tokens + SMT (z3 LRA/LIRA)',
      'DESIGN.md section 11.4 (as built) and section 5 C09 (plan)')
claim('C11',
      'Bounded symbolic check of the CRTF serialiser and parser with decimal tokens: for the CRTF-representable pixel classes '
      'in coordsys=image every coordinate and size is symbolic and the parsed value is proved within half a unit of the '
      'format precision (semi-axes for ellipses), same class, include sense, annotation type, label, CRTF metadata, '
      'determinism and parse-serialise-parse fixed point; sky regions in six frames and three length units with concrete '
      'coordinates (frame-independent separation); CASA reading rules on literal files.',
      'Two open known findings (points without a symbol; pixel polygons/lines written with deg suffix), two defects repaired; '
      'the line grammar is exercised by literal files, not a symbolic grammar.',
      'symbolic execution of the real writer and parser with decimal tokens + SMT (z3 LRA)',
      'DESIGN.md section 11.4 (as built) and section 5 C11 (plan)')
claim('C10',
      'Bounded symbolic check of the real DS9 parser against reference semantics attached to a grammar of the supported subset: '
      'generated files (optional unsupported frame, optional global line, noise, one region line in one of 8 frames x 12 shape forms x '
      'separator style x case x sign x property list, then a probe line that observes the surviving parser state); pixel coordinates and '
      'all sizes are symbolic numerals (any magnitude), sky positions in six concrete notations; plus literal files for the state rules '
      '(no frame, frame reset, composite, semicolons, sign persistence, text comments).',
      'Sexagesimal arithmetic is astropy (the check fixes the unit handed to it); longer files by induction over the observed state; '
      'one defect repaired (ellipse/box without angle).',
      'symbolic execution of the real parser with symbolic numerals + SMT (z3 LRA), grammar-directed program enumeration',
      'DESIGN.md section 11.4 (as built) and section 5 C10 (plan)')
claim('C03',
      'Bounded, compositional symbolic check of the exact-overlap code with the transcendental leaf uninterpreted: to_mask(mode=exact) plumbing '
      '(grid extents, radius / semi-axes, angle in radians, use_exact=1, result returned untouched); circle and ellipse grid kernels '
      '(a pixel is left 0 only if it does not meet the shape, set to 1 only if it lies in the disc, otherwise single-pixel overlap / pixel area, '
      'evaluated on the right extents); quadrant decomposition of the circle/rectangle overlap tiles the rectangle; first-quadrant core = polygon '
      'of inside corners and crossing points + circular segment; ellipse pixel = two triangle/unit-circle overlaps of the mapped pixel halves '
      'times rx*ry; triangle/unit-circle cases; the segment routine implements r^2(theta - sin theta)/2.',
      'The identity "segment formula = area of the circular segment" (asin/sin), floating-point error (the 1e-8 of the statement) and the '
      'convergence rate of sub-pixel masks are outside the claim (see DESIGN.md); grids up to 2x2 (quick) / 3x3 (thorough) pixels.',
      'pyx-level symbolic execution of the real kernels with uninterpreted area functions + SMT (z3 NRA/UF), lemma chains proved before use',
      'DESIGN.md section 11.5 (as built)')
