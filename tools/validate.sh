#!/bin/bash
# validate MANIFEST and evidence files against the schemas
python3-vt - <<'PY'
import json, jsonschema, glob
jsonschema.validate(json.load(open('/verif/MANIFEST.json')), json.load(open('/root/.vp/MANIFEST.schema.json')))
print('manifest ok')
es = json.load(open('/root/.vp/EVIDENCE.schema.json'))
for f in sorted(glob.glob('/verif/evidence/*.json')):
    try:
        jsonschema.validate(json.load(open(f)), es); print('ok', f)
    except Exception as e:
        print('BAD', f, str(e)[:300])
PY
