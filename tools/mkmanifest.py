#!/usr/bin/env python3
"""Regenerate MANIFEST.json from the table below (keeps the file valid at all times)."""
import json, os
HERE = os.path.dirname(os.path.dirname(os.path.abspath(__file__)))
ALL = [f'C{i:02d}' for i in range(1, 21)]

CLAIMED = {}
NA = {}

def claim(pid, text, note, technique, design_ref, thorough=True):
    CLAIMED[pid] = dict(text=text, note=note, technique=technique, design_ref=design_ref, thorough=thorough)

exec(open(os.path.join(HERE, 'tools', 'claims.py')).read())

checks = []
for pid in ALL:
    if pid in CLAIMED:
        c = CLAIMED[pid]
        e = {
            'property_id': pid,
            'quick_cmd': f'./check {pid} --tier quick',
            'evidence_file': f'/verif/evidence/{pid}.json',
            'replay_cmd_template': f'./check {pid} --replay {{path}}',
            'engine': 'vf',
            'level_claimed': {'category': 'model_checking', 'text': c['text'], 'design_ref': c['design_ref']},
            'level_note': c['note'],
            'technique': c['technique'],
        }
        if c['thorough']:
            e['thorough_cmd'] = f'./check {pid} --tier thorough'
        checks.append(e)
na = [{'property_id': p, 'reason': NA.get(p, 'check not built yet in this session; see DESIGN.md section 5 for the plan')}
      for p in ALL if p not in CLAIMED]
man = {
    'version': 1,
    'setup_cmd': './setup.sh',
    'hooks': {
        'guard': 'ASTROPY_REGIONS_VERIF',
        'enable': 'no source hooks: all instrumentation is done from the harness process by rebinding names in the '
                  'namespaces of the imported /repo modules (./check exports ASTROPY_REGIONS_VERIF=1 for uniformity)',
        'baseline_off_cmd': 'cd /repo && /venv/bin/python -m pytest -ra -q -p no:cacheprovider --timeout=900 '
                            '--continue-on-collection-errors',
        'source_commits': [],
        'add_only': True,
    },
    'engines': [
        {'name': 'symx', 'path': 'vf/symx.py', 'serves_properties': sorted(CLAIMED),
         'kind_free_text': 'proxy symbolic execution of the unmodified regions Python code (z3 terms flowing through '
                           'numpy object arrays / astropy Quantity), path forking at bool(), SMT validity queries'},
        {'name': 'pyxsym', 'path': 'vf/pyxsym.py', 'serves_properties': [p for p in ('C01', 'C02', 'C03', 'C04', 'C08', 'C15') if p in CLAIMED],
         'kind_free_text': 'AST interpreter for the Cython kernel sources (.pyx lowered on every run), ite-merging'},
        {'name': 'solve', 'path': 'vf/solve.py', 'serves_properties': sorted(CLAIMED),
         'kind_free_text': 'solver layer: z3 5.1 validity queries (slicing, factor / linear abstraction, Int handling, portfolio); '
                           'cvc5 1.4 re-decides a sample of the unsat verdicts in the thorough tier (--cross)'},
    ],
    'checks': checks,
    'not_applicable': na,
    'notes': 'All checks: exit 0 held / 1 VIOLATION (replayed on the real library) / 3 inconclusive / 2 harness error. '
             'See DESIGN.md (section 11 is the as-built record). Any check can be pointed at another tree with VERIF_REPO=<dir>.',
}
json.dump(man, open(os.path.join(HERE, 'MANIFEST.json'), 'w'), indent=1)
print('claimed', sorted(CLAIMED), 'na', len(na))
