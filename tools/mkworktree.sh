#!/bin/bash
# create a scratch git worktree of /repo (HEAD) at $1 with the compiled extensions copied in
set -e
D="$1"
git -C /repo worktree add --detach "$D" HEAD >/dev/null 2>&1
cd /repo
for f in $(git status --short --ignored | awk '/^!!/ {print $2}' | grep -E '\.so$|version\.py$'); do
  mkdir -p "$D/$(dirname $f)"; cp -p "$f" "$D/$f"
done
echo "$D ready"
