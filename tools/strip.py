#!/usr/bin/env python3
"""print python files without docstrings/blank lines (reading aid)"""
import ast,sys
def strip(path):
    src=open(path).read()
    tree=ast.parse(src)
    lines=src.split('\n')
    kill=set()
    for n in ast.walk(tree):
        if isinstance(n,(ast.FunctionDef,ast.ClassDef,ast.Module)):
            if n.body and isinstance(n.body[0],ast.Expr) and isinstance(getattr(n.body[0],'value',None),ast.Constant) and isinstance(n.body[0].value.value,str):
                d=n.body[0]
                for i in range(d.lineno-1,d.end_lineno): kill.add(i)
    print('#'*20,path)
    for i,l in enumerate(lines):
        if i in kill or not l.strip(): continue
        print(f'{i+1}:{l}')
for p in sys.argv[1:]: strip(p)
