#!/bin/bash
# Build the tooling overlay venv (/verif/.venv) offline: /venv's packages + z3/crosshair/cvc5
# from the local wheelhouse.  Idempotent, safe under concurrent invocation (flock).
set -e
HERE="$(cd "$(dirname "$0")" && pwd)"
V="$HERE/.venv"
exec 9>"$HERE/.venv.lock"
flock 9
if [ -x "$V/bin/python" ] && "$V/bin/python" -c "import z3, crosshair, cvc5, numpy, astropy" >/dev/null 2>&1; then
  exit 0
fi
rm -rf "$V"
/venv/bin/python -m venv "$V"
SP="$V/lib/python3.12/site-packages"
echo "import site; site.addsitedir('/venv/lib/python3.12/site-packages')" > "$SP/_base.pth"
PIP_NO_INDEX=1 "$V/bin/pip" install -q --no-index --find-links /opt/veriftools/wheels z3-solver crosshair-tool cvc5 >/dev/null
"$V/bin/python" -c "import z3, crosshair, cvc5, numpy, astropy"
